"""RFC 3987 section 2.2 (with RFC 3986's IPv6address / IPv4address / IPvFuture), transcribed production
by production, independently of the repository. ABNF literal strings are case-insensitive (RFC 5234 2.3)."""
from engine.rx.ast import cset, sunion, lit, cat, alt, star, plus, opt, rep, EPS

ALPHA = cset(("A", "Z"), ("a", "z"))
DIGIT = cset(("0", "9"))
HEXDIG = cset(("0", "9"), ("A", "F"), ("a", "f"))

ucschar = cset((0xA0, 0xD7FF), (0xF900, 0xFDCF), (0xFDF0, 0xFFEF),
               (0x10000, 0x1FFFD), (0x20000, 0x2FFFD), (0x30000, 0x3FFFD), (0x40000, 0x4FFFD),
               (0x50000, 0x5FFFD), (0x60000, 0x6FFFD), (0x70000, 0x7FFFD), (0x80000, 0x8FFFD),
               (0x90000, 0x9FFFD), (0xA0000, 0xAFFFD), (0xB0000, 0xBFFFD), (0xC0000, 0xCFFFD),
               (0xD0000, 0xDFFFD), (0xE1000, 0xEFFFD))
iprivate = cset((0xE000, 0xF8FF), (0xF0000, 0xFFFFD), (0x100000, 0x10FFFD))

unreserved = sunion(ALPHA, DIGIT, cset("-._~"))
iunreserved = sunion(unreserved, ucschar)
sub_delims = cset("!$&'()*+,;=")
pct_encoded = cat(lit("%"), HEXDIG, HEXDIG)

scheme = cat(ALPHA, star(sunion(ALPHA, DIGIT, cset("+-."))))
port = star(DIGIT)

dec_octet = alt(DIGIT,
                cat(cset(("1", "9")), DIGIT),
                cat(lit("1"), DIGIT, DIGIT),
                cat(lit("2"), cset(("0", "4")), DIGIT),
                cat(lit("25"), cset(("0", "5"))))
IPv4address = cat(dec_octet, lit("."), dec_octet, lit("."), dec_octet, lit("."), dec_octet)
h16 = rep(HEXDIG, 1, 4)
ls32 = alt(cat(h16, lit(":"), h16), IPv4address)
h16c = cat(h16, lit(":"))


def _pre(n):
    # [ *n( h16 ":" ) h16 ]
    return opt(cat(rep(h16c, 0, n), h16))


IPv6address = alt(
    cat(rep(h16c, 6, 6), ls32),
    cat(lit("::"), rep(h16c, 5, 5), ls32),
    cat(opt(h16), lit("::"), rep(h16c, 4, 4), ls32),
    cat(_pre(1), lit("::"), rep(h16c, 3, 3), ls32),
    cat(_pre(2), lit("::"), rep(h16c, 2, 2), ls32),
    cat(_pre(3), lit("::"), h16c, ls32),
    cat(_pre(4), lit("::"), ls32),
    cat(_pre(5), lit("::"), h16),
    cat(_pre(6), lit("::")),
)
IPvFuture = cat(cset("vV"), plus(HEXDIG), lit("."), plus(sunion(unreserved, sub_delims, cset(":"))))
IP_literal = cat(lit("["), alt(IPv6address, IPvFuture), lit("]"))

ireg_name = star(alt(sunion(iunreserved, sub_delims), pct_encoded))
ihost = alt(IP_literal, IPv4address, ireg_name)
iuserinfo = star(alt(sunion(iunreserved, sub_delims, cset(":")), pct_encoded))
iauthority = cat(opt(cat(iuserinfo, lit("@"))), ihost, opt(cat(lit(":"), port)))

ipchar = alt(sunion(iunreserved, sub_delims, cset(":@")), pct_encoded)
isegment = star(ipchar)
isegment_nz = plus(ipchar)
isegment_nz_nc = plus(alt(sunion(iunreserved, sub_delims, cset("@")), pct_encoded))

ipath_abempty = star(cat(lit("/"), isegment))
ipath_absolute = cat(lit("/"), opt(cat(isegment_nz, star(cat(lit("/"), isegment)))))
ipath_noscheme = cat(isegment_nz_nc, star(cat(lit("/"), isegment)))
ipath_rootless = cat(isegment_nz, star(cat(lit("/"), isegment)))
ipath_empty = EPS

iquery = star(alt(ipchar, iprivate, cset("/?")))
ifragment = star(alt(ipchar, cset("/?")))

ihier_part = alt(cat(lit("//"), iauthority, ipath_abempty), ipath_absolute, ipath_rootless, ipath_empty)
IRI = cat(scheme, lit(":"), ihier_part, opt(cat(lit("?"), iquery)), opt(cat(lit("#"), ifragment)))

irelative_part = alt(cat(lit("//"), iauthority, ipath_abempty), ipath_absolute, ipath_noscheme, ipath_empty)
irelative_ref = cat(irelative_part, opt(cat(lit("?"), iquery)), opt(cat(lit("#"), ifragment)))
IRI_reference = alt(IRI, irelative_ref)
