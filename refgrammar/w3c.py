"""Terminals of the W3C grammars (N-Triples/N-Quads 1.1, Turtle 1.1, SPARQL 1.1), transcribed from the
recommendations, independently of the repository."""
from engine.rx.ast import cset, sunion, sminus, lit, cat, alt, star, plus, opt, rep, cs_neg, norm

HEX = cset(("0", "9"), ("A", "F"), ("a", "f"))
PN_CHARS_BASE = cset(("A", "Z"), ("a", "z"), (0xC0, 0xD6), (0xD8, 0xF6), (0xF8, 0x2FF), (0x370, 0x37D), (0x37F, 0x1FFF),
                     (0x200C, 0x200D), (0x2070, 0x218F), (0x2C00, 0x2FEF), (0x3001, 0xD7FF), (0xF900, 0xFDCF),
                     (0xFDF0, 0xFFFD), (0x10000, 0xEFFFF))
# Turtle / SPARQL
PN_CHARS_U = sunion(PN_CHARS_BASE, cset("_"))
PN_CHARS = sunion(PN_CHARS_U, cset("-"), cset(("0", "9")), cset((0xB7, 0xB7), (0x300, 0x36F), (0x203F, 0x2040)))
# N-Triples / N-Quads 1.1: PN_CHARS_U also contains ':'
NT_PN_CHARS_U = sunion(PN_CHARS_BASE, cset("_:"))
NT_PN_CHARS = sunion(NT_PN_CHARS_U, cset("-"), cset(("0", "9")), cset((0xB7, 0xB7), (0x300, 0x36F), (0x203F, 0x2040)))

DIG = cset(("0", "9"))

# label part of BLANK_NODE_LABEL (after '_:')
TTL_BNODE_LABEL = cat(sunion(PN_CHARS_U, DIG), opt(cat(star(sunion(PN_CHARS, cset("."))), PN_CHARS)))
NT_BNODE_LABEL = cat(sunion(NT_PN_CHARS_U, DIG), opt(cat(star(sunion(NT_PN_CHARS, cset("."))), NT_PN_CHARS)))

# tag part of LANGTAG (after '@')
LANGTAG = cat(plus(cset(("a", "z"), ("A", "Z"))), star(cat(lit("-"), plus(cset(("a", "z"), ("A", "Z"), ("0", "9"))))))

# body of IRIREF after UCHAR decoding: any character except #x00-#x20 < > " { } | ^ ` \
IRIREF_BODY = star(("set", cs_neg(norm([(0, 0x20)] + [(ord(c), ord(c)) for c in '<>"{}|^`\\']))))

VARNAME = cat(sunion(PN_CHARS_U, DIG), star(sunion(PN_CHARS_U, DIG, cset((0xB7, 0xB7), (0x300, 0x36F), (0x203F, 0x2040)))))

PN_PREFIX = cat(PN_CHARS_BASE, opt(cat(star(sunion(PN_CHARS, cset("."))), PN_CHARS)))

PERCENT = cat(lit("%"), HEX, HEX)
PN_LOCAL_ESC_CHARS = cset("_~.-!$&'()*+,;=/?#@%")
PN_LOCAL_ESC = cat(lit("\\"), PN_LOCAL_ESC_CHARS)
PLX = alt(PERCENT, PN_LOCAL_ESC)
PN_LOCAL = cat(alt(sunion(PN_CHARS_U, cset(":"), DIG), PLX),
               opt(cat(star(alt(sunion(PN_CHARS, cset(".:")), PLX)), alt(sunion(PN_CHARS, cset(":")), PLX))))

SIGN = opt(cset("+-"))
INTEGER = cat(SIGN, plus(DIG))
DECIMAL = cat(SIGN, star(DIG), lit("."), plus(DIG))
EXPONENT = cat(cset("eE"), SIGN, plus(DIG))
DOUBLE = cat(SIGN, alt(cat(plus(DIG), lit("."), star(DIG), EXPONENT), cat(lit("."), plus(DIG), EXPONENT), cat(plus(DIG), EXPONENT)))
BOOLEAN = alt(lit("true"), lit("false"))
