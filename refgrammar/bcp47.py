"""RFC 5646 (BCP 47) section 2.1 Language-Tag, transcribed (case-insensitive ABNF)."""
from engine.rx.ast import cset, lit, cat, alt, star, plus, opt, rep, sunion

ALPHA = cset(("A", "Z"), ("a", "z"))
DIGIT = cset(("0", "9"))
alphanum = sunion(ALPHA, DIGIT)
DASH = lit("-")


def ci(s):
    """case-insensitive literal"""
    return cat(*[cset(c.lower() + c.upper()) if c.isalpha() else lit(c) for c in s])


extlang = cat(rep(ALPHA, 3, 3), rep(cat(DASH, rep(ALPHA, 3, 3)), 0, 2))
language = alt(cat(rep(ALPHA, 2, 3), opt(cat(DASH, extlang))), rep(ALPHA, 4, 4), rep(ALPHA, 5, 8))
script = rep(ALPHA, 4, 4)
region = alt(rep(ALPHA, 2, 2), rep(DIGIT, 3, 3))
variant = alt(rep(alphanum, 5, 8), cat(DIGIT, rep(alphanum, 3, 3)))
singleton = cset(("0", "9"), ("A", "W"), ("Y", "Z"), ("a", "w"), ("y", "z"))
extension = cat(singleton, plus(cat(DASH, rep(alphanum, 2, 8))))
privateuse = cat(cset("xX"), plus(cat(DASH, rep(alphanum, 1, 8))))
langtag = cat(language, opt(cat(DASH, script)), opt(cat(DASH, region)), star(cat(DASH, variant)),
              star(cat(DASH, extension)), opt(cat(DASH, privateuse)))
irregular = alt(*[ci(x) for x in ("en-GB-oed", "i-ami", "i-bnn", "i-default", "i-enochian", "i-hak", "i-klingon", "i-lux",
                                  "i-mingo", "i-navajo", "i-pwn", "i-tao", "i-tay", "i-tsu", "sgn-BE-FR", "sgn-BE-NL", "sgn-CH-DE")])
regular = alt(*[ci(x) for x in ("art-lojban", "cel-gaulish", "no-bok", "no-nyn", "zh-guoyu", "zh-hakka", "zh-min", "zh-min-nan", "zh-xiang")])
Language_Tag = alt(langtag, privateuse, irregular, regular)
