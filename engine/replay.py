"""Native replay crate driver (DESIGN.md 2.4): builds /verif/replay (path deps on /repo, real regex,
real BTreeSet, real parsers) into a scratch dir, dev and/or release, and runs it on witnesses."""
import os
import shutil
import subprocess
import time

from . import overlay
from .common import VERIF, log


class Replay:
    def __init__(self, tag, profiles=("dev",)):
        self.dir = overlay.new_scratch("replay-" + tag)
        self.src = os.path.join(self.dir, "replay")
        shutil.copytree(os.path.join(VERIF, "replay"), self.src)
        repo = os.environ.get("VERIF_REPO", "/repo").rstrip("/")
        if repo != "/repo":
            # checks can be pointed at another checkout (seed testing in a scratch worktree)
            ct = os.path.join(self.src, "Cargo.toml")
            with open(ct) as f:
                txt = f.read()
            with open(ct, "w") as f:
                f.write(txt.replace('path = "/repo/', 'path = "%s/' % repo))
        self.target = os.path.join(self.dir, "target")
        self.bins = {}
        self.build_log = ""
        self.build_s = 0.0
        env = dict(os.environ)
        env["CARGO_NET_OFFLINE"] = "true"
        env["CARGO_TARGET_DIR"] = self.target
        env.pop("RUSTUP_TOOLCHAIN", None)
        t0 = time.time()
        for prof in profiles:
            cmd = ["cargo", "build", "--offline", "-q"] + (["--release"] if prof == "release" else [])
            p = subprocess.run(cmd, cwd=self.src, env=env, stdout=subprocess.PIPE, stderr=subprocess.STDOUT, text=True)
            self.build_log += p.stdout[-3000:]
            if p.returncode != 0:
                raise RuntimeError("replay crate failed to build (%s):\n%s" % (prof, p.stdout[-3000:]))
            self.bins[prof] = os.path.join(self.target, "release" if prof == "release" else "debug", "verif_replay")
        self.build_s = time.time() - t0

    def run(self, prof, args, timeout=600, stdin=None):
        """returns (returncode, stdout). Negative/128+ return codes mean the process died on a signal."""
        try:
            p = subprocess.run([self.bins[prof]] + list(args), stdout=subprocess.PIPE, stderr=subprocess.STDOUT, text=True,
                               timeout=timeout, input=stdin)
            return p.returncode, p.stdout
        except subprocess.TimeoutExpired:
            return None, "timeout"

    def close(self):
        overlay.remove_scratch(self.dir)
