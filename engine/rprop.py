"""Generic runner for obligations decided by engine R (regular languages in the solver, DESIGN.md 2.3)."""
import os
import time

from .common import log
from .rx import ast as A
from .rx import solver, rustre, extract


def esc(s):
    """escape for the replay binary's line protocol"""
    out = []
    for c in s:
        o = ord(c)
        if c == "\\":
            out.append("\\\\")
        elif 0x21 <= o <= 0x7E:
            out.append(c)
        else:
            out.append("\\u{%x}" % o)
    return "".join(out)


class Obl:
    """One language obligation:  kind 'subset': L(a) ⊆ L(b);  'disjoint': L(a) ∩ L(b) = ∅."""

    def __init__(self, name, kind, a, b, a_desc, b_desc, confirm=None, meaning=""):
        self.name, self.kind, self.a, self.b = name, kind, a, b
        self.a_desc, self.b_desc = a_desc, b_desc
        self.confirm = confirm      # callable(witness:str) -> (True|False|None, detail)   True = reproduces on the real build
        self.meaning = meaning


def asserts_for(al, o, blocked=(), classes=()):
    a = ['(str.in_re s %s)' % al.smt_sigma_star(), '(str.in_re s %s)' % al.smt(o.a)]
    if o.kind == "subset":
        a.append('(not (str.in_re s %s))' % al.smt(o.b))
    else:
        a.append('(str.in_re s %s)' % al.smt(o.b))
    for c in classes:
        a.append('(not (str.in_re s %s))' % al.smt(c))
    for w in blocked:
        a.append('(not (= s "%s"))' % "".join(al.smt_char(k) for k in w))
    return a


def run(ctx, obls, known_classes=None, max_witnesses=1, timeout_ms=120000, crosscheck=True, trusted=None, extra_samples=None):
    """known_classes: {obl_name: [(key, class_ast, what)]} for OPEN findings whose witness still reproduces.
    Returns per-obligation result dicts. Fills ctx.coverage (proof level)."""
    known_classes = known_classes or {}
    ctx.level = "proof"
    results = []
    nq = 0
    t_solver = 0.0
    for o in obls:
        classes = [c for (_, c, _) in known_classes.get(o.name, [])]
        al = A.Alphabet([o.a, o.b] + classes)
        r = {"obligation": o.name, "kind": o.kind, "A": o.a_desc, "B": o.b_desc, "minterms": al.n,
             "ast_size": [A.size(o.a), A.size(o.b)], "verdict": None, "witnesses": [], "queries": 0,
             "assumed_away": [k for (k, _, _) in known_classes.get(o.name, [])], "meaning": o.meaning}
        blocked = []
        while True:
            t0 = time.time()
            res, script, out = solver.run_batch([("q", asserts_for(al, o, blocked, classes))], timeout_ms=timeout_ms)
            dt = time.time() - t0
            t_solver += dt
            nq += 1
            r["queries"] += 1
            v, model, _ = res["q"]
            r["solver_s"] = round(r.get("solver_s", 0) + dt, 3)
            if v == "unsat":
                if not r["witnesses"]:
                    r["verdict"] = "unsat"
                break
            if v != "sat":
                r["verdict"] = "inconclusive:" + v
                r["solver_output_tail"] = out[-400:]
                break
            syms = al.decode_model_string(model)
            w = al.concretize(syms)
            # independent matcher must agree with the solver about this witness
            ina, inb = A.matches(o.a, w), A.matches(o.b, w)
            ok = ina and ((not inb) if o.kind == "subset" else inb)
            wit = {"string": w, "escaped": esc(w), "in_A": ina, "in_B": inb, "matcher_agrees": ok}
            if not ok:
                r["verdict"] = "inconclusive:solver-and-matcher-disagree"
                r["witnesses"].append(wit)
                break
            if o.confirm:
                c, detail = o.confirm(w)
                wit["replay"] = {"reproduced": c, "detail": detail}
            r["witnesses"].append(wit)
            r["verdict"] = "sat"
            blocked.append(syms)
            if len(r["witnesses"]) >= max_witnesses:
                break
        # bounded cross-check of an unsat verdict on the other solvers (never a failure)
        if crosscheck and r["verdict"] == "unsat":
            cc = {}
            for sv in ("z3-old", "cvc5"):
                q = asserts_for(al, o, (), classes) + ['(<= (str.len s) 8)']
                t0 = time.time()
                res2, _, _ = solver.run_batch([("q", q)], timeout_ms=20000, solver=sv)
                cc[sv] = {"verdict_len<=8": res2["q"][0], "s": round(time.time() - t0, 2)}
                if res2["q"][0] == "sat":
                    r["verdict"] = "inconclusive:cross-check-disagrees(%s)" % sv
            r["crosscheck"] = cc
        results.append(r)
        log("[%s]   %-38s %-12s minterms=%-3d %.2fs %s" % (
            ctx.id, o.name, r["verdict"], al.n, r.get("solver_s", 0),
            ("witness %r" % r["witnesses"][0]["string"]) if r["witnesses"] else ""))
    n = len(results)
    discharged = sum(1 for r in results if r["verdict"] == "unsat")
    ctx.coverage.update({
        "obligations": max(n, 1),
        "discharged": discharged,
        "checker_cmd": "z3-new -in  (z3 5.1.0; SMT-LIB RegLan over a minterm alphabet; script generated by /verif/engine/rprop.py from /repo's current source)",
        "trusted_base": (trusted or []) + [
            "z3 5.1 sequence/regex theory (unsat verdicts re-asked with |s|<=8 on z3 4.8.12 and cvc5 1.0)",
            "regex-syntax subset parser /verif/engine/rx/rustre.py (validated each run against the real regex crate on corpus + solver witnesses)",
            "minterm alphabet abstraction (exact: every language involved is a union of minterm words)",
            "reference grammars /verif/refgrammar (transcribed from RFC 3987/3986 and the W3C recommendations)"],
        "samples": [{k: v for k, v in r.items()} for r in results] + (extra_samples or []),
        "queries": nq,
        "solver_time_s": round(t_solver, 2),
        "unbounded": "verdicts hold for strings of every length (no bound); cross-checks are bounded to |s|<=8",
    })
    return results


def validate_translator(ctx, rep, names_and_asts, corpus, patfiles):
    """Translator validation (DESIGN 2.3 item 7): every corpus string through (a) the AST matcher of the parsed
    pattern and (b) the REAL regex crate compiled on the same extracted pattern text. Any disagreement => exit 2."""
    lines = []
    idx = []
    for name, ast in names_and_asts:
        for s in corpus:
            lines.append("raw\t%s\t%s" % (patfiles[name], esc(s)))
            idx.append((name, ast, s))
    rc, out = rep.run("dev", ["rx"], stdin="\n".join(lines) + "\n", timeout=600)
    got = out.split()
    if rc != 0 or len(got) != len(idx):
        ctx.inconc("translator validation could not run (rc=%s, %d/%d answers): %s" % (rc, len(got), len(idx), out[-300:]))
        return 0, 0
    bad = []
    for (name, ast, s), g in zip(idx, got):
        mine = A.matches(ast, s)
        if mine != (g == "1"):
            bad.append((name, s, mine, g))
    if bad:
        ctx.inconc("TRANSLATOR BUG: AST matcher and real regex crate disagree on %d strings, e.g. %r" % (len(bad), bad[:3]))
    return len(idx), len(bad)
