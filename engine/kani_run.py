"""Engine K driver (DESIGN.md 2.2).

build():   `cargo kani -p <pkg> --only-codegen` on an Overlay -> one goto binary per
           #[kani::proof] harness (all harnesses of the crate in ONE compiler run).
run():     for each selected harness, the same post-processing kani-driver applies
           (goto-cc link with kani_lib.c, entry point, --add-library,
           --generate-function-body, --ensure-one-backedge-per-target) and then
           CBMC 6.11 with Kani's flag set, plus per-harness --unwind/--unwindset,
           wall-clock cap and address-space limit, N harnesses in parallel.

Outcome per harness:
  pass          all non-cover properties SUCCESS, every required cover SATISFIED
  fail          a property assertion (or pointer/bounds/overflow check) FAILED
  unwind        an unwinding / recursion-unwinding assertion failed   (inconclusive unless it is the oracle)
  vacuous       a required cover point was not satisfiable
  timeout/oom/error                                                     (inconclusive)
"""
import glob
import json
import os
import re
import resource
import subprocess
import time
from concurrent.futures import ThreadPoolExecutor

KANI_HOME = os.environ.get("KANI_HOME", "/root/.kani/kani-0.68.0")
KANI_LIB_C = os.path.join(KANI_HOME, "library", "kani", "kani_lib.c")

CBMC_BASE = [
    "--no-malloc-may-fail", "--no-undefined-shift-check", "--no-signed-overflow-check",
    "--nan-check", "--no-self-loops-to-assumptions", "--no-pointer-primitive-check",
    "--object-bits", "16", "--sat-solver", "cadical", "--slice-formula",
]

RES_RE = re.compile(r"^\[(.+?)\] (?:file (\S+) )?line (\d+) (.*): (SUCCESS|FAILURE|UNKNOWN|ERROR)$")
HDR_RE = re.compile(r"^(\S+) function (.+)$")
KID_RE = re.compile(r"\[?KANI_CHECK_ID_[^\]\s:]*::[A-Za-z0-9_]+\]?\s*")


class BuildError(Exception):
    pass


def env_offline():
    e = dict(os.environ)
    e["CARGO_NET_OFFLINE"] = "true"
    e.pop("RUSTUP_TOOLCHAIN", None)
    return e


def build(ov, package, extra_args=(), log=None, timeout=1800):
    """Compile all harnesses of `package` in overlay `ov`. Returns {pretty_name: meta}."""
    tdir = os.path.join(ov.target, package)
    cmd = ["cargo", "kani", "-p", package, "--target-dir", tdir, "--only-codegen", "-Z", "unstable-options"] + list(extra_args)
    t0 = time.time()
    p = subprocess.run(cmd, cwd=ov.root, env=env_offline(), stdout=subprocess.PIPE, stderr=subprocess.STDOUT,
                       text=True, timeout=timeout)
    if log:
        with open(log, "w") as f:
            f.write(p.stdout)
    if p.returncode != 0:
        tail = "\n".join(p.stdout.splitlines()[-60:])
        raise BuildError("cargo kani --only-codegen failed for %s (exit %d):\n%s" % (package, p.returncode, tail))
    metas = glob.glob(os.path.join(tdir, "kani", "*", "debug", "build", package, "*", "out", "*.kani-metadata.json"))
    if not metas:
        metas = glob.glob(os.path.join(tdir, "kani", "**", "%s-*.kani-metadata.json" % package), recursive=True)
    if not metas:
        raise BuildError("no kani metadata produced for %s" % package)
    metas.sort(key=os.path.getmtime)
    with open(metas[-1]) as f:
        md = json.load(f)
    out = {}
    for h in md["proof_harnesses"]:
        out[h["pretty_name"]] = h
    return out, time.time() - t0


class Harness:
    def __init__(self, name, unwind=None, unwindset=(), timeout=180, mem_gb=12, required_covers=None,
                 optional_covers=(), oracle_unwind=False, extra_cbmc=(), note=""):
        """name: pretty-name suffix (matched against the end of the harness's pretty name).
        unwindset: [(regex on pretty function name, loop/recursion bound)] resolved against the goto binary.
        required_covers: None = every cover in the harness must be SATISFIED, except optional_covers (substring match).
        oracle_unwind: the unwinding assertion itself is the property (C16): its failure => 'fail' not 'unwind'."""
        self.name = name
        self.unwind = unwind
        self.unwindset = list(unwindset)
        self.timeout = timeout
        self.mem_gb = mem_gb
        self.optional_covers = tuple(optional_covers)
        self.oracle_unwind = oracle_unwind
        self.extra_cbmc = list(extra_cbmc)
        self.note = note


def _limit(mem_gb):
    def f():
        b = int(mem_gb * (1 << 30))
        resource.setrlimit(resource.RLIMIT_AS, (b, b))
        os.setsid()
    return f


def _run(cmd, cwd, timeout, mem_gb=None, out=None):
    t0 = time.time()
    fo = open(out, "w") if out else subprocess.PIPE
    try:
        p = subprocess.Popen(cmd, cwd=cwd, stdout=fo, stderr=subprocess.STDOUT, text=True,
                             preexec_fn=_limit(mem_gb) if mem_gb else os.setsid)
        try:
            so, _ = p.communicate(timeout=timeout)
            return p.returncode, so, time.time() - t0, False
        except subprocess.TimeoutExpired:
            try:
                os.killpg(p.pid, 9)
            except Exception:
                p.kill()
            p.wait()
            return -9, None, time.time() - t0, True
    finally:
        if out:
            fo.close()


def list_functions(goto_file, cwd):
    """mangled -> pretty name for every function of a goto binary (goto-instrument --list-goto-functions)."""
    p = subprocess.run(["goto-instrument", "--list-goto-functions", goto_file], cwd=cwd, stdout=subprocess.PIPE,
                       stderr=subprocess.DEVNULL, text=True)
    names = []
    for line in p.stdout.splitlines():
        m = re.search(r"/\* (\S+?),? ", line + " ")
        if m:
            names.append(m.group(1).rstrip(","))
    return sorted(set(names))


def resolve_unwindset(harness, hout, workdir, pretty_map_file):
    """Resolve [(regex on pretty name, bound)] to CBMC --unwindset entries using Kani's pretty_name_map."""
    if not harness.unwindset:
        return [], []
    with open(pretty_map_file) as f:
        pm = json.load(f)  # mangled -> pretty
    # loops of the binary: "goto-instrument --show-loops" gives ids <mangled>.<n>
    p = subprocess.run(["goto-instrument", "--show-loops", hout], cwd=workdir, stdout=subprocess.PIPE,
                       stderr=subprocess.DEVNULL, text=True)
    loops = re.findall(r"^Loop (\S+):", p.stdout, re.M)
    funcs = list_functions(hout, workdir)
    entries, resolved = [], []
    for ent in harness.unwindset:
        rx, bound = ent[0], ent[1]
        kind = ent[2] if len(ent) > 2 else "both"   # "rec": recursion bound only; "loops": loops only; "both"; trailing "?" = optional
        optional = kind.endswith("?")
        kind = kind.rstrip("?")
        r = re.compile(rx)
        hit = False
        for mangled in funcs:
            pretty = pm.get(mangled) or mangled
            if pretty is None or not r.search(pretty):
                continue
            hit = True
            # recursion bound: CBMC takes "<function>:<n>" for recursion, "<function>.<k>:<n>" for loops
            if kind in ("rec", "both"):
                entries.append("%s:%d" % (mangled, bound))
            if kind in ("loops", "both"):
                for lp in loops:
                    if lp.rsplit(".", 1)[0] == mangled:
                        entries.append("%s:%d" % (lp, bound))
            resolved.append((pretty, bound))
        if not hit and not optional:
            resolved.append(("<no function matches /%s/>" % rx, bound))
    return entries, resolved


def parse_cbmc(text):
    res = []
    cur_file = None
    stats = {}
    for line in text.splitlines():
        m = RES_RE.match(line)
        if m:
            prop, pfile, ln, desc, st = m.groups()
            parts = prop.rsplit(".", 2)
            cls = parts[-2] if len(parts) == 3 else "?"
            func = parts[0] if len(parts) == 3 else prop
            if prop.endswith(".recursion"):
                cls, func = "recursion", prop[:-len(".recursion")]
            res.append({"property": prop, "class": cls, "function": func, "file": pfile or cur_file, "line": int(ln),
                        "description": KID_RE.sub("", desc).strip(), "status": st})
            continue
        m = HDR_RE.match(line)
        if m and ("/" in m.group(1) or m.group(1).endswith(".rs") or m.group(1).startswith("<")):
            cur_file = m.group(1)
            continue
        m = re.match(r"^size of program expression: (\d+) steps", line)
        if m:
            stats["program_steps"] = int(m.group(1))
        m = re.match(r"^Generated (\d+) VCC\(s\), (\d+) remaining after simplification", line)
        if m:
            stats["vccs"] = int(m.group(1))
            stats["vccs_remaining"] = int(m.group(2))
        m = re.match(r"^(\d+) variables, (\d+) clauses", line)
        if m:
            stats["sat_variables"] = max(stats.get("sat_variables", 0), int(m.group(1)))
            stats["sat_clauses"] = max(stats.get("sat_clauses", 0), int(m.group(2)))
        m = re.match(r"^Runtime Symex: ([\d.e+-]+)s", line)
        if m:
            stats["symex_s"] = float(m.group(1))
        m = re.match(r"^Runtime Solver: ([\d.e+-]+)s", line)
        if m:
            stats["solver_s"] = stats.get("solver_s", 0.0) + float(m.group(1))
        m = re.match(r"^Runtime decision procedure: ([\d.e+-]+)s", line)
        if m:
            stats["decision_s"] = stats.get("decision_s", 0.0) + float(m.group(1))
    return res, stats


def run_one(ov, meta, harness, workroot):
    """Post-process and model-check one harness. Returns a result dict."""
    name = meta["pretty_name"]
    wd = os.path.join(workroot, re.sub(r"[^A-Za-z0-9_]", "_", name))
    os.makedirs(wd, exist_ok=True)
    symtab = meta["goto_file"]
    hout = os.path.join(wd, "h.out")
    r = {"harness": name, "note": harness.note, "outcome": None, "wall_s": 0.0, "failed": [], "covers": {},
         "unwind": harness.unwind if harness.unwind is not None else meta["attributes"].get("unwind_value"),
         "unwindset": [], "stats": {}, "log": os.path.join(wd, "cbmc.txt")}
    t0 = time.time()
    steps = [
        ["goto-cc", symtab, KANI_LIB_C, "-o", hout],
        ["goto-cc", hout, "--function", meta["mangled_name"], "-o", hout],
        ["goto-instrument", "--add-library", "--no-malloc-may-fail", hout, hout],
        ["goto-instrument", "--generate-function-body-options", "assert-false-assume-false",
         "--generate-function-body", ".*", "--drop-unused-functions", hout, hout],
        ["goto-instrument", "--ensure-one-backedge-per-target", hout, hout],
    ]
    for c in steps:
        rc, so, _, to = _run(c, wd, 600)
        if rc != 0:
            r["outcome"] = "error"
            r["error"] = "%s failed: %s" % (c[0], (so or "")[-500:])
            r["wall_s"] = time.time() - t0
            return r
    pm = symtab.replace(".symtab.out", ".pretty_name_map.json")
    us_entries, us_resolved = resolve_unwindset(harness, hout, wd, pm)
    r["unwindset"] = [{"function": p, "bound": b} for p, b in us_resolved]
    r["unwindset_entries"] = us_entries
    if any(p.startswith("<no function matches") for p, _ in us_resolved):
        # a function named in the harness spec no longer exists: not a pass, not a violation
        r["unwindset_unresolved"] = [p for p, _ in us_resolved if p.startswith("<no function")]
    cmd = ["cbmc"] + CBMC_BASE
    if r["unwind"] is not None:
        cmd += ["--unwind", str(r["unwind"])]
    if us_entries:
        cmd += ["--unwindset", ",".join(us_entries)]
    cmd += harness.extra_cbmc + [hout, "--verbosity", "8"]
    r["cbmc_cmd"] = " ".join(x if len(x) < 200 else x[:200] + "..." for x in cmd)
    rc, _, wall, to = _run(cmd, wd, harness.timeout, harness.mem_gb, out=r["log"])
    r["wall_s"] = round(time.time() - t0, 2)
    r["cbmc_wall_s"] = round(wall, 2)
    with open(r["log"], errors="replace") as f:
        text = f.read()
    res, stats = parse_cbmc(text)
    r["stats"] = stats
    r["n_properties"] = len([x for x in res if x["class"] not in ("cover", "reachability_check")])
    if to:
        r["outcome"] = "timeout"
        return r
    if not res or "** Results:" not in text:
        r["outcome"] = "oom" if ("std::bad_alloc" in text or "Out of memory" in text or "out of memory" in text or rc in (-6, -9, 134, 137)) else "error"
        r["error"] = text[-600:]
        return r
    if any(x["status"] == "ERROR" for x in res) or "Solver ran out of memory" in text or "Out of memory" in text:
        r["outcome"] = "oom"
        r["error"] = "CBMC reported ERROR status / solver out of memory"
        return r
    covers = {}
    failed, unwind_failed = [], []
    for x in res:
        if x["class"] == "cover":
            covers[x["description"]] = covers.get(x["description"], False) or (x["status"] == "FAILURE")
        elif x["class"] == "reachability_check":
            continue
        elif x["status"] != "SUCCESS":
            if x["class"] in ("unwind", "recursion") or "unwinding assertion" in x["description"]:
                unwind_failed.append(x)
            else:
                failed.append(x)
    r["covers"] = covers
    r["failed"] = failed[:20]
    r["unwind_failed"] = unwind_failed[:20]
    missing = [c for c, ok in covers.items() if not ok and not any(o in c for o in harness.optional_covers)]
    r["covers_unsatisfied"] = missing
    if unwind_failed and harness.oracle_unwind:
        r["outcome"] = "fail"
        r["failed"] = unwind_failed[:20] + r["failed"]
    elif unwind_failed:
        r["outcome"] = "unwind"
    elif failed:
        r["outcome"] = "fail"
    elif missing:
        r["outcome"] = "vacuous"
    else:
        r["outcome"] = "pass"
    return r


def select(metas, suffix):
    hits = [m for n, m in metas.items() if n == suffix or n.endswith("::" + suffix)]
    if len(hits) != 1:
        raise BuildError("harness %r matches %d compiled harnesses" % (suffix, len(hits)))
    return hits[0]


def run(ov, metas, harnesses, jobs=4, progress=None):
    workroot = os.path.join(ov.dir, "work")
    os.makedirs(workroot, exist_ok=True)
    sel = [(select(metas, h.name), h) for h in harnesses]
    results = []
    with ThreadPoolExecutor(max_workers=jobs) as ex:
        futs = [ex.submit(run_one, ov, m, h, workroot) for m, h in sel]
        for f in futs:
            r = f.result()
            if progress:
                progress(r)
            results.append(r)
    return results


def concrete_playback(ov, package, meta, harness, extra_args=(), timeout=1800, unwindset_entries=()):
    """Ask Kani itself for the concrete values of a failing harness (-Z concrete-playback, print).
    Returns the text of the generated unit test, or None."""
    tdir = os.path.join(ov.target, package + "-playback")
    cmd = ["cargo", "kani", "-p", package, "--target-dir", tdir, "--harness", meta["pretty_name"], "--exact",
           "-Z", "concrete-playback", "-Z", "unstable-options", "--concrete-playback=print", "--output-format", "terse"] + list(extra_args)
    if unwindset_entries:
        # mangled names are stable across Kani builds of the same overlay (same -C metadata)
        cmd += ["--cbmc-args"] + (["--unwind", str(harness.unwind)] if harness.unwind is not None else []) + ["--unwindset", ",".join(unwindset_entries)]
    elif harness.unwind is not None:
        cmd += ["--default-unwind", str(harness.unwind)]
    try:
        p = subprocess.run(cmd, cwd=ov.root, env=env_offline(), stdout=subprocess.PIPE, stderr=subprocess.STDOUT, text=True,
                           timeout=timeout)
    except subprocess.TimeoutExpired:
        return None, "cargo kani concrete playback timed out after %ds" % timeout
    blocks = re.findall(r"```\n?(.*?)```", p.stdout, re.S)
    tests, cover_tests = [], []
    for b in blocks:
        if "fn kani_concrete_playback" not in b:
            continue
        m = re.search(r"Check for `([^`]*)`: (.*)", b)
        cls = m.group(1) if m else "?"
        # Kani de-duplicates tests with identical values: the counterexample of a failed assertion may only be
        # printed under a cover it also satisfies, so cover tests are kept as candidates too.
        (cover_tests if cls == "cover" else tests).append(b)
    tests = tests + cover_tests
    # identical value vectors get identical test names: keep each name once
    uniq, seen_names = [], set()
    for b in tests:
        m = re.search(r"fn (kani_concrete_playback_\w+)", b)
        nm = m.group(1) if m else b
        if nm not in seen_names:
            seen_names.add(nm)
            uniq.append(b)
    tests = uniq
    if not tests:
        return None, p.stdout[-2000:]
    return "\n".join(tests[:8]), None
