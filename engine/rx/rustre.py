"""Parser for the subset of Rust `regex` syntax used by sophia's validators → engine.rx.ast.

Supported: optional leading (?x) flag (verbose: whitespace and #-comments ignored, also inside
classes, as regex-syntax does), ^ ... $ anchors at the very ends only, groups ( ) and (?: ),
alternation, ? * + {m} {m,} {m,n}, '.', bracket classes with ranges / negation / escapes,
escapes \\u{..} \\U{..} \\x{..} \\uXXXX \\UXXXXXXXX \\xXX and escaped punctuation.
Anything else raises Unsupported (the check then exits 2: neither pass nor violation).
"""
from . import ast as A


class Unsupported(Exception):
    pass


PUNCT = set("\\.+*?()|[]{}^$#&-~/!\"'%,:;<=>@_` \t\n")

DOT = ("set", A.norm([(0, 9), (11, A.MAXCP)]))  # any scalar value except \n


_FOLD = None
_PERL = {}


def perl_class(letter):
    """\\d \\s \\w (Unicode-aware, as in the regex crate) from Python's unicodedata; approximation errors are caught by
    the per-run translator validation against the real regex crate."""
    import unicodedata
    key = letter.lower()
    if key not in _PERL:
        ivs = []
        start = None
        def member(cp):
            c = chr(cp)
            if key == "d":
                return unicodedata.category(c) == "Nd"
            if key == "s":
                return c.isspace() and unicodedata.category(c) in ("Zs", "Zl", "Zp", "Cc") and c not in "\x1c\x1d\x1e\x1f"
            cat = unicodedata.category(c)
            return c.isalpha() or cat in ("Mn", "Mc", "Me", "Nd", "Nl", "Pc") or cp in (0x200C, 0x200D)
        for cp in range(0, A.MAXCP + 1):
            if 0xD800 <= cp <= 0xDFFF:
                continue
            if member(cp):
                if start is None:
                    start = cp
                last = cp
            else:
                if start is not None:
                    ivs.append((start, last))
                    start = None
        if start is not None:
            ivs.append((start, last))
        _PERL[key] = A.norm(ivs)
    cs = _PERL[key]
    return A.cs_neg(cs) if letter.isupper() else cs


def _fold_key(cp):
    c = chr(cp)
    f = c.casefold()
    if len(f) == 1:
        return ord(f)
    l = c.lower()
    if len(l) == 1:
        return ord(l)
    return cp


def fold_classes():
    """Unicode simple case folding equivalence classes (approximated with Python's casefold/lower on single
    characters); only built when a pattern uses the `i` flag. The result is validated against the real regex
    crate on every run (translator validation), so an approximation error shows up as exit 2, not as a verdict."""
    global _FOLD
    if _FOLD is None:
        by_key = {}
        for cp in range(0, A.MAXCP + 1):
            if 0xD800 <= cp <= 0xDFFF:
                continue
            k = _fold_key(cp)
            if k != cp or True:
                by_key.setdefault(k, []).append(cp)
        _FOLD = {}
        for k, members in by_key.items():
            if len(members) > 1:
                for m in members:
                    _FOLD[m] = members
    return _FOLD


def case_close(cs):
    """close a charset under simple case folding"""
    fc = fold_classes()
    extra = []
    # only code points that have a non-trivial class matter
    for m, members in fc.items():
        if A.cs_contains(cs, m):
            for x in members:
                extra.append((x, x))
    return A.norm(list(cs) + extra)


class P:
    def __init__(self, src):
        self.s = src
        self.i = 0
        self.verbose = False
        self.icase = False

    def peek(self, k=0):
        j = self.i + k
        return self.s[j] if j < len(self.s) else ""

    def eof(self):
        return self.i >= len(self.s)

    def skip_ws(self):
        if not self.verbose:
            return
        while not self.eof():
            c = self.peek()
            if c in " \t\n\r\f\v":
                self.i += 1
            elif c == "#":
                while not self.eof() and self.peek() != "\n":
                    self.i += 1
            else:
                break

    # ------------------------------------------------------------
    def parse(self):
        import re as _re
        m = _re.match(r"\(\?([a-zA-Z]+)\)", self.s)
        if m:
            for fl in m.group(1):
                if fl == "x":
                    self.verbose = True
                elif fl == "i":
                    self.icase = True
                else:
                    raise Unsupported("flag %r" % fl)
            self.i = m.end()
        elif self.s.startswith("(?") and not self.s.startswith("(?:"):
            raise Unsupported("unsupported leading group/flags: %r" % self.s[:8])
        self.skip_ws()
        if self.peek() != "^":
            raise Unsupported("pattern is not anchored with ^ at the start")
        self.i += 1
        r = self.alt()
        self.skip_ws()
        if not self.eof():
            raise Unsupported("trailing input at %d: %r" % (self.i, self.s[self.i:self.i + 10]))
        if not self._saw_end:
            raise Unsupported("pattern is not anchored with $ at the end")
        return r

    _saw_end = False

    def alt(self):
        branches = [self.concat()]
        while True:
            self.skip_ws()
            if self.peek() == "|":
                if self._saw_end:
                    raise Unsupported("'$' inside an alternation")
                self.i += 1
                branches.append(self.concat())
            else:
                break
        return A.alt(*branches) if len(branches) > 1 else branches[0]

    def concat(self):
        items = []
        while True:
            self.skip_ws()
            c = self.peek()
            if c == "" or c in "|)":
                break
            if self._saw_end:
                raise Unsupported("input after '$'")
            if c == "$":
                self.i += 1
                self._saw_end = True
                self._end_depth = self._depth
                if self._depth != 0:
                    raise Unsupported("'$' inside a group")
                continue
            if c == "^":
                raise Unsupported("'^' not at the start")
            atom = self.atom()
            atom = self.quant(atom)
            items.append(atom)
        return A.cat(*items)

    _depth = 0

    def quant(self, atom):
        while True:
            self.skip_ws()
            c = self.peek()
            if c == "*":
                self.i += 1
                atom = A.star(atom)
            elif c == "+":
                self.i += 1
                atom = A.plus(atom)
            elif c == "?":
                self.i += 1
                atom = A.opt(atom)
            elif c == "{":
                j = self.s.index("}", self.i)
                body = self.s[self.i + 1:j].replace(" ", "")
                self.i = j + 1
                if "," in body:
                    m, n = body.split(",", 1)
                    m = int(m)
                    n = int(n) if n != "" else None
                else:
                    m = n = int(body)
                atom = A.rep(atom, m, n)
            else:
                return atom
            if self.peek() in ("?", "+") and c in "*+?}":
                # lazy / possessive quantifiers change nothing for full-match languages, but be strict
                if self.peek() == "?":
                    raise Unsupported("lazy quantifier")

    def atom(self):
        c = self.peek()
        if c == "(":
            self.i += 1
            saved = (self.verbose, self.icase)
            if self.peek() == "?":
                import re as _re
                m = _re.match(r"\?([a-zA-Z]*)(?:-([a-zA-Z]+))?:", self.s[self.i:])
                if not m:
                    raise Unsupported("group syntax (?%s" % self.s[self.i + 1:self.i + 4])
                for fl in m.group(1):
                    if fl == "x":
                        self.verbose = True
                    elif fl == "i":
                        self.icase = True
                    else:
                        raise Unsupported("flag %r" % fl)
                for fl in (m.group(2) or ""):
                    if fl == "x":
                        self.verbose = False
                    elif fl == "i":
                        self.icase = False
                    else:
                        raise Unsupported("flag -%r" % fl)
                self.i += m.end()
            self._depth += 1
            r = self.alt()
            self.skip_ws()
            if self.peek() != ")":
                raise Unsupported("unbalanced group at %d" % self.i)
            self.i += 1
            self._depth -= 1
            self.verbose, self.icase = saved
            return r
        if c == "[":
            return self.klass()
        if c == ".":
            self.i += 1
            return DOT
        if c == "\\":
            if self.peek(1) in "dDwWsS":
                l = self.peek(1)
                self.i += 2
                return ("set", perl_class(l))
            if self.peek(1) in "pPbBAzZ":
                raise Unsupported("unicode class or assertion \\%s" % self.peek(1))
            cp = self.escape()
            return self._lit(cp)
        if c in "*+?{}":
            raise Unsupported("dangling quantifier %r at %d" % (c, self.i))
        self.i += 1
        return self._lit(ord(c))

    def _lit(self, cp):
        cs = ((cp, cp),)
        if self.icase:
            cs = case_close(cs)
        return ("set", cs)

    def escape(self):
        """at a backslash; returns a code point"""
        assert self.peek() == "\\"
        e = self.peek(1)
        if e in ("u", "U", "x"):
            if self.peek(2) == "{":
                j = self.s.index("}", self.i)
                cp = int(self.s[self.i + 3:j], 16)
                self.i = j + 1
                return cp
            n = {"x": 2, "u": 4, "U": 8}[e]
            cp = int(self.s[self.i + 2:self.i + 2 + n], 16)
            self.i += 2 + n
            return cp
        if e == "n":
            self.i += 2
            return 10
        if e == "r":
            self.i += 2
            return 13
        if e == "t":
            self.i += 2
            return 9
        if e in PUNCT and e != "":
            self.i += 2
            return ord(e)
        raise Unsupported("escape \\%s" % e)

    def klass(self):
        assert self.peek() == "["
        self.i += 1
        neg = False
        if self.peek() == "^":
            neg = True
            self.i += 1
        ivs = []
        first = True
        while True:
            self.skip_ws()
            c = self.peek()
            if c == "":
                raise Unsupported("unterminated class")
            if c == "]" and not first:
                self.i += 1
                break
            first = False
            if c == "[":
                raise Unsupported("nested class / POSIX class")
            if c == "&" and self.peek(1) == "&":
                raise Unsupported("class intersection")
            if c == "\\" and self.peek(1) in "dDwWsS":
                l = self.peek(1)
                self.i += 2
                ivs += list(perl_class(l))
                continue
            if c == "\\":
                if self.peek(1) in "pPbB":
                    raise Unsupported("unicode class \\%s" % self.peek(1))
                lo = self.escape()
            else:
                lo = ord(c)
                self.i += 1
            # range?
            save = self.i
            self.skip_ws()
            if self.peek() == "-" and self.peek(1) not in ("]", ""):
                # could still be "-  ]" in verbose mode: look past whitespace
                j = self.i + 1
                k = j
                if self.verbose:
                    while k < len(self.s) and self.s[k] in " \t\n\r":
                        k += 1
                if k < len(self.s) and self.s[k] == "]":
                    self.i = save
                    ivs.append((lo, lo))
                    continue
                if self.s[j] == "-":
                    raise Unsupported("class difference")
                self.i = k
                if self.peek() == "\\":
                    hi = self.escape()
                else:
                    hi = ord(self.peek())
                    self.i += 1
                if hi < lo:
                    raise Unsupported("invalid range")
                ivs.append((lo, hi))
            else:
                self.i = save
                ivs.append((lo, lo))
        cs = A.norm(ivs)
        if self.icase:
            cs = case_close(cs)
        if neg:
            cs = A.cs_neg(cs)
        return ("set", cs)


def parse(src):
    return P(src).parse()
