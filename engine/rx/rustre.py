"""Parser for the subset of Rust `regex` syntax used by sophia's validators → engine.rx.ast.

Supported: optional leading (?x) flag (verbose: whitespace and #-comments ignored, also inside
classes, as regex-syntax does), ^ ... $ anchors at the very ends only, groups ( ) and (?: ),
alternation, ? * + {m} {m,} {m,n}, '.', bracket classes with ranges / negation / escapes,
escapes \\u{..} \\U{..} \\x{..} \\uXXXX \\UXXXXXXXX \\xXX and escaped punctuation.
Anything else raises Unsupported (the check then exits 2: neither pass nor violation).
"""
from . import ast as A


class Unsupported(Exception):
    pass


PUNCT = set("\\.+*?()|[]{}^$#&-~/!\"'%,:;<=>@_` \t\n")

DOT = ("set", A.norm([(0, 9), (11, A.MAXCP)]))  # any scalar value except \n


class P:
    def __init__(self, src):
        self.s = src
        self.i = 0
        self.verbose = False

    def peek(self, k=0):
        j = self.i + k
        return self.s[j] if j < len(self.s) else ""

    def eof(self):
        return self.i >= len(self.s)

    def skip_ws(self):
        if not self.verbose:
            return
        while not self.eof():
            c = self.peek()
            if c in " \t\n\r\f\v":
                self.i += 1
            elif c == "#":
                while not self.eof() and self.peek() != "\n":
                    self.i += 1
            else:
                break

    # ------------------------------------------------------------
    def parse(self):
        if self.s.startswith("(?x)"):
            self.verbose = True
            self.i = 4
        elif self.s.startswith("(?"):
            raise Unsupported("flags other than (?x): %r" % self.s[:8])
        self.skip_ws()
        if self.peek() != "^":
            raise Unsupported("pattern is not anchored with ^ at the start")
        self.i += 1
        r = self.alt()
        self.skip_ws()
        if not self.eof():
            raise Unsupported("trailing input at %d: %r" % (self.i, self.s[self.i:self.i + 10]))
        if not self._saw_end:
            raise Unsupported("pattern is not anchored with $ at the end")
        return r

    _saw_end = False

    def alt(self):
        branches = [self.concat()]
        while True:
            self.skip_ws()
            if self.peek() == "|":
                if self._saw_end:
                    raise Unsupported("'$' inside an alternation")
                self.i += 1
                branches.append(self.concat())
            else:
                break
        return A.alt(*branches) if len(branches) > 1 else branches[0]

    def concat(self):
        items = []
        while True:
            self.skip_ws()
            c = self.peek()
            if c == "" or c in "|)":
                break
            if self._saw_end:
                raise Unsupported("input after '$'")
            if c == "$":
                self.i += 1
                self._saw_end = True
                self._end_depth = self._depth
                if self._depth != 0:
                    raise Unsupported("'$' inside a group")
                continue
            if c == "^":
                raise Unsupported("'^' not at the start")
            atom = self.atom()
            atom = self.quant(atom)
            items.append(atom)
        return A.cat(*items)

    _depth = 0

    def quant(self, atom):
        while True:
            self.skip_ws()
            c = self.peek()
            if c == "*":
                self.i += 1
                atom = A.star(atom)
            elif c == "+":
                self.i += 1
                atom = A.plus(atom)
            elif c == "?":
                self.i += 1
                atom = A.opt(atom)
            elif c == "{":
                j = self.s.index("}", self.i)
                body = self.s[self.i + 1:j].replace(" ", "")
                self.i = j + 1
                if "," in body:
                    m, n = body.split(",", 1)
                    m = int(m)
                    n = int(n) if n != "" else None
                else:
                    m = n = int(body)
                atom = A.rep(atom, m, n)
            else:
                return atom
            if self.peek() in ("?", "+") and c in "*+?}":
                # lazy / possessive quantifiers change nothing for full-match languages, but be strict
                if self.peek() == "?":
                    raise Unsupported("lazy quantifier")

    def atom(self):
        c = self.peek()
        if c == "(":
            self.i += 1
            if self.peek() == "?":
                if self.peek(1) == ":":
                    self.i += 2
                else:
                    raise Unsupported("group flag (?%s" % self.peek(1))
            self._depth += 1
            r = self.alt()
            self.skip_ws()
            if self.peek() != ")":
                raise Unsupported("unbalanced group at %d" % self.i)
            self.i += 1
            self._depth -= 1
            return r
        if c == "[":
            return self.klass()
        if c == ".":
            self.i += 1
            return DOT
        if c == "\\":
            cp = self.escape()
            return ("set", ((cp, cp),))
        if c in "*+?{}":
            raise Unsupported("dangling quantifier %r at %d" % (c, self.i))
        self.i += 1
        return ("set", ((ord(c), ord(c)),))

    def escape(self):
        """at a backslash; returns a code point"""
        assert self.peek() == "\\"
        e = self.peek(1)
        if e in ("u", "U", "x"):
            if self.peek(2) == "{":
                j = self.s.index("}", self.i)
                cp = int(self.s[self.i + 3:j], 16)
                self.i = j + 1
                return cp
            n = {"x": 2, "u": 4, "U": 8}[e]
            cp = int(self.s[self.i + 2:self.i + 2 + n], 16)
            self.i += 2 + n
            return cp
        if e == "n":
            self.i += 2
            return 10
        if e == "r":
            self.i += 2
            return 13
        if e == "t":
            self.i += 2
            return 9
        if e in PUNCT and e != "":
            self.i += 2
            return ord(e)
        raise Unsupported("escape \\%s" % e)

    def klass(self):
        assert self.peek() == "["
        self.i += 1
        neg = False
        if self.peek() == "^":
            neg = True
            self.i += 1
        ivs = []
        first = True
        while True:
            self.skip_ws()
            c = self.peek()
            if c == "":
                raise Unsupported("unterminated class")
            if c == "]" and not first:
                self.i += 1
                break
            first = False
            if c == "[":
                raise Unsupported("nested class / POSIX class")
            if c == "&" and self.peek(1) == "&":
                raise Unsupported("class intersection")
            if c == "\\":
                if self.peek(1) in "dDwWsSpPbB":
                    raise Unsupported("perl/unicode class \\%s" % self.peek(1))
                lo = self.escape()
            else:
                lo = ord(c)
                self.i += 1
            # range?
            save = self.i
            self.skip_ws()
            if self.peek() == "-" and self.peek(1) not in ("]", ""):
                # could still be "-  ]" in verbose mode: look past whitespace
                j = self.i + 1
                k = j
                if self.verbose:
                    while k < len(self.s) and self.s[k] in " \t\n\r":
                        k += 1
                if k < len(self.s) and self.s[k] == "]":
                    self.i = save
                    ivs.append((lo, lo))
                    continue
                if self.s[j] == "-":
                    raise Unsupported("class difference")
                self.i = k
                if self.peek() == "\\":
                    hi = self.escape()
                else:
                    hi = ord(self.peek())
                    self.i += 1
                if hi < lo:
                    raise Unsupported("invalid range")
                ivs.append((lo, hi))
            else:
                self.i = save
                ivs.append((lo, lo))
        cs = A.norm(ivs)
        if neg:
            cs = A.cs_neg(cs)
        return ("set", cs)


def parse(src):
    return P(src).parse()
