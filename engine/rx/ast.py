"""Regular-expression ASTs over Unicode scalar values, character-set algebra, minterm
abstraction, and translations to SMT-LIB RegLan and to Python `re` (independent matcher).

AST nodes (tuples):
  ("set", ((lo,hi),...))      one character from the set (sorted, merged, inclusive code point intervals)
  ("cat", (r1, r2, ...))      concatenation          ("eps",) = empty string
  ("alt", (r1, r2, ...))      union                  ("none",) = empty language
  ("star", r) ("plus", r) ("opt", r) ("rep", r, m, n|None)
"""
import re as _pyre

MAXCP = 0x10FFFF
SURR = (0xD800, 0xDFFF)


# ---------------------------------------------------------------- charsets
def norm(ivs):
    """sort, clip surrogates out, merge"""
    out = []
    for lo, hi in sorted(ivs):
        if lo > hi:
            continue
        parts = []
        if hi < SURR[0] or lo > SURR[1]:
            parts.append((lo, hi))
        else:
            if lo < SURR[0]:
                parts.append((lo, SURR[0] - 1))
            if hi > SURR[1]:
                parts.append((SURR[1] + 1, hi))
        for a, b in parts:
            if out and a <= out[-1][1] + 1:
                out[-1] = (out[-1][0], max(out[-1][1], b))
            else:
                out.append((a, b))
    return tuple(out)


UNIVERSE = norm([(0, MAXCP)])


def cs_union(a, b):
    return norm(list(a) + list(b))


def cs_neg(a):
    out = []
    prev = 0
    for lo, hi in a:
        if lo > prev:
            out.append((prev, lo - 1))
        prev = hi + 1
    if prev <= MAXCP:
        out.append((prev, MAXCP))
    return norm(out)


def cs_contains(a, cp):
    for lo, hi in a:
        if lo <= cp <= hi:
            return True
    return False


# ---------------------------------------------------------------- constructors
EPS = ("eps",)
NONE = ("none",)


def cset(*items):
    """items: single chars (str of len 1), (lo,hi) pairs of str or int"""
    ivs = []
    for it in items:
        if isinstance(it, str):
            for ch in it:
                ivs.append((ord(ch), ord(ch)))
        else:
            lo, hi = it
            lo = ord(lo) if isinstance(lo, str) else lo
            hi = ord(hi) if isinstance(hi, str) else hi
            ivs.append((lo, hi))
    return ("set", norm(ivs))


def setof(node):
    assert node[0] == "set"
    return node[1]


def sunion(*nodes):
    ivs = []
    for n in nodes:
        ivs += list(setof(n))
    return ("set", norm(ivs))


def sminus(a, b):
    nb = cs_neg(setof(b))
    # intersection a & nb
    out = []
    for lo, hi in setof(a):
        for l2, h2 in nb:
            l, h = max(lo, l2), min(hi, h2)
            if l <= h:
                out.append((l, h))
    return ("set", norm(out))


def lit(s):
    if s == "":
        return EPS
    return cat(*[("set", ((ord(c), ord(c)),)) for c in s])


def cat(*rs):
    out = []
    for r in rs:
        if r == NONE:
            return NONE
        if r == EPS:
            continue
        if r[0] == "cat":
            out += list(r[1])
        else:
            out.append(r)
    if not out:
        return EPS
    if len(out) == 1:
        return out[0]
    return ("cat", tuple(out))


def alt(*rs):
    out = []
    sets = []
    for r in rs:
        if r == NONE:
            continue
        if r[0] == "alt":
            for x in r[1]:
                if x[0] == "set":
                    sets.append(x)
                elif x not in out:
                    out.append(x)
        elif r[0] == "set":
            sets.append(r)
        elif r not in out:
            out.append(r)
    if sets:
        out.insert(0, sunion(*sets))
    if not out:
        return NONE
    if len(out) == 1:
        return out[0]
    return ("alt", tuple(out))


def star(r):
    if r in (EPS, NONE):
        return EPS
    if r[0] in ("star",):
        return r
    return ("star", r)


def plus(r):
    if r in (EPS, NONE):
        return r
    return ("plus", r)


def opt(r):
    if r == NONE:
        return EPS
    if r == EPS or r[0] in ("star", "opt"):
        return r
    return ("opt", r)


def rep(r, m, n=None):
    """n None = unbounded"""
    if n is not None and n < m:
        return NONE
    if m == 0 and n is None:
        return star(r)
    if m == 1 and n is None:
        return plus(r)
    if m == 0 and n == 1:
        return opt(r)
    if m == 1 and n == 1:
        return r
    if n == 0:
        return EPS
    return ("rep", r, m, n)


# ---------------------------------------------------------------- traversal
def charsets(r, acc=None):
    if acc is None:
        acc = set()
    t = r[0]
    if t == "set":
        acc.add(r[1])
    elif t in ("cat", "alt"):
        for x in r[1]:
            charsets(x, acc)
    elif t in ("star", "plus", "opt", "rep"):
        charsets(r[1], acc)
    return acc


class Alphabet:
    """Minterm abstraction: the coarsest partition of the scalar values that no character set of the
    given regexes splits. Exact: every language involved is a union of minterm words."""

    BASE = 0x100

    def __init__(self, regexes):
        sets = set()
        for r in regexes:
            charsets(r, sets)
        self.sets = sorted(sets)
        pts = {0, MAXCP + 1, SURR[0], SURR[1] + 1}
        for s in self.sets:
            for lo, hi in s:
                pts.add(lo)
                pts.add(hi + 1)
        pts = sorted(pts)
        sig2sym = {}
        self.sym_intervals = []   # symbol -> list of intervals
        self.sym_sig = []
        for a, b in zip(pts, pts[1:]):
            if SURR[0] <= a <= SURR[1]:
                continue
            sig = tuple(i for i, s in enumerate(self.sets) if cs_contains(s, a))
            k = sig2sym.get(sig)
            if k is None:
                k = len(self.sym_intervals)
                sig2sym[sig] = k
                self.sym_intervals.append([])
                self.sym_sig.append(sig)
            self.sym_intervals[k].append((a, b - 1))
        self.n = len(self.sym_intervals)
        self._set_syms = {}
        for i, s in enumerate(self.sets):
            self._set_syms[s] = sorted(k for k in range(self.n) if i in self.sym_sig[k])

    def syms_of(self, cs):
        return self._set_syms[cs]

    def sym_of_cp(self, cp):
        for k, ivs in enumerate(self.sym_intervals):
            for lo, hi in ivs:
                if lo <= cp <= hi:
                    return k
        raise ValueError(cp)

    def smt_char(self, k):
        return "\\u{%x}" % (self.BASE + k)

    def representative(self, k, alt_index=0):
        """a concrete code point of minterm k: printable ASCII if possible, else an interval end point"""
        ivs = self.sym_intervals[k]
        cands = []
        for lo, hi in ivs:
            for cp in range(max(lo, 0x21), min(hi, 0x7E) + 1):
                cands.append(cp)
                if len(cands) > 8:
                    break
        for lo, hi in ivs:
            cands.append(lo)
            cands.append(hi)
        return cands[alt_index % len(cands)]

    def abstract(self, s):
        return [self.sym_of_cp(ord(c)) for c in s]

    def concretize(self, syms, alt_index=0):
        return "".join(chr(self.representative(k, alt_index)) for k in syms)

    # -------- SMT-LIB
    def smt_set(self, cs):
        ks = self.syms_of(cs)
        if not ks:
            return "re.none"
        runs = []
        a = b = ks[0]
        for k in ks[1:]:
            if k == b + 1:
                b = k
            else:
                runs.append((a, b))
                a = b = k
        runs.append((a, b))
        parts = ['(re.range "%s" "%s")' % (self.smt_char(x), self.smt_char(y)) for x, y in runs]
        return parts[0] if len(parts) == 1 else "(re.union %s)" % " ".join(parts)

    def smt_sigma_star(self):
        return '(re.* (re.range "%s" "%s"))' % (self.smt_char(0), self.smt_char(self.n - 1))

    def smt(self, r):
        t = r[0]
        if t == "eps":
            return '(str.to_re "")'
        if t == "none":
            return "re.none"
        if t == "set":
            return self.smt_set(r[1])
        if t == "cat":
            return "(re.++ %s)" % " ".join(self.smt(x) for x in r[1])
        if t == "alt":
            return "(re.union %s)" % " ".join(self.smt(x) for x in r[1])
        if t == "star":
            return "(re.* %s)" % self.smt(r[1])
        if t == "plus":
            return "(re.+ %s)" % self.smt(r[1])
        if t == "opt":
            return "(re.opt %s)" % self.smt(r[1])
        if t == "rep":
            _, x, m, n = r
            if n is None:
                return "(re.++ ((_ re.loop %d %d) %s) (re.* %s))" % (m, m, self.smt(x), self.smt(x))
            return "((_ re.loop %d %d) %s)" % (m, n, self.smt(x))
        raise ValueError(t)

    def decode_model_string(self, s):
        """z3 prints strings with \\u{..} escapes; return the list of symbols"""
        out = []
        i = 0
        while i < len(s):
            if s.startswith("\\u{", i):
                j = s.index("}", i)
                out.append(int(s[i + 3:j], 16) - self.BASE)
                i = j + 1
            else:
                out.append(ord(s[i]) - self.BASE)
                i += 1
        return out


# ---------------------------------------------------------------- independent matcher (Python re)
def _py_cp(cp):
    return "\\U%08x" % cp


def to_pyre(r):
    t = r[0]
    if t == "eps":
        return "(?:)"
    if t == "none":
        return "(?!)"
    if t == "set":
        if not r[1]:
            return "(?!)"
        return "[" + "".join(_py_cp(lo) if lo == hi else "%s-%s" % (_py_cp(lo), _py_cp(hi)) for lo, hi in r[1]) + "]"
    if t == "cat":
        return "(?:" + "".join(to_pyre(x) for x in r[1]) + ")"
    if t == "alt":
        return "(?:" + "|".join(to_pyre(x) for x in r[1]) + ")"
    if t == "star":
        return "(?:%s)*" % to_pyre(r[1])
    if t == "plus":
        return "(?:%s)+" % to_pyre(r[1])
    if t == "opt":
        return "(?:%s)?" % to_pyre(r[1])
    if t == "rep":
        _, x, m, n = r
        return "(?:%s){%d,%s}" % (to_pyre(x), m, "" if n is None else n)
    raise ValueError(t)


_cache = {}


def matches(r, s):
    """full match of string s against AST r, using Python's re engine (backtracking, independent of z3)"""
    c = _cache.get(id(r))
    if c is None or c[0] is not r:
        c = (r, _pyre.compile(to_pyre(r), _pyre.DOTALL))
        _cache[id(r)] = c
    return c[1].fullmatch(s) is not None


def size(r):
    t = r[0]
    if t in ("eps", "none", "set"):
        return 1
    if t in ("cat", "alt"):
        return 1 + sum(size(x) for x in r[1])
    return 1 + size(r[1])
