"""SMT driver for regular-language queries: one `z3-new -in` process per batch, push/pop per query.
Any `(error` line makes the affected query inconclusive."""
import re
import shutil
import subprocess
import time

Z3_PRIMARY = shutil.which("z3-new") or "z3-new"
Z3_OLD = "/usr/bin/z3"
CVC5 = shutil.which("cvc5") or "cvc5"


def script_header(timeout_ms):
    return "(set-logic ALL)\n(set-option :timeout %d)\n(declare-const s String)\n" % timeout_ms


def run_batch(queries, timeout_ms=60000, solver="z3-new", extra_decl=""):
    """queries: [(tag, [assertion strings])] ; returns {tag: (verdict, model_string|None, seconds)}"""
    lines = [script_header(timeout_ms), extra_decl]
    for tag, asserts in queries:
        lines.append("(push)")
        for a in asserts:
            lines.append("(assert %s)" % a)
        lines.append('(echo "@@begin %s")' % tag)
        lines.append("(check-sat)")
        lines.append("(get-value (s))")
        lines.append('(echo "@@end %s")' % tag)
        lines.append("(pop)")
    script = "\n".join(lines) + "\n"
    if solver == "z3-new":
        cmd = [Z3_PRIMARY, "-in"]
    elif solver == "z3-old":
        cmd = [Z3_OLD, "-in"]
    else:
        cmd = [CVC5, "--lang", "smt2", "--incremental", "--strings-exp", "--tlimit-per=%d" % timeout_ms, "--produce-models"]
    t0 = time.time()
    try:
        p = subprocess.run(cmd, input=script, stdout=subprocess.PIPE, stderr=subprocess.STDOUT, text=True,
                           timeout=(timeout_ms / 1000.0) * len(queries) + 60)
        out = p.stdout
    except subprocess.TimeoutExpired as e:
        out = (e.stdout or b"").decode() if isinstance(e.stdout, bytes) else (e.stdout or "")
    total = time.time() - t0
    res = {}
    for tag, _ in queries:
        m = re.search(r"@@begin %s\"?\n(.*?)\"?@@end %s" % (re.escape(tag), re.escape(tag)), out, re.S)
        if not m:
            res[tag] = ("missing", None, total)
            continue
        body = m.group(1)
        first = body.strip().splitlines()[0].strip() if body.strip() else ""
        model = None
        if first == "sat":
            mm = re.search(r'\(\(s "((?:[^"]|"")*)"\)\)', body)
            if mm:
                model = mm.group(1).replace('""', '"')
            else:
                first = "error"
        elif first == "unsat":
            pass
        elif first in ("unknown", "timeout"):
            first = "unknown"
        else:
            first = "error"
        if "(error" in body and first == "sat":
            first = "error"
        if "(error" in body and first == "unsat":
            # an error on get-value after unsat is expected ("model is not available"); anything else is not
            errs = re.findall(r"\(error \"([^\"]*)", body)
            if any("model is not available" not in e and "not available" not in e and "cannot get value" not in e.lower() and "Cannot get" not in e for e in errs):
                first = "error"
        res[tag] = (first, model, total / max(1, len(queries)))
    return res, script, out
