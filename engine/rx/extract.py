"""Extract the regex pattern strings from /repo's current source text (every run)."""
import os
import re

REPO = os.environ.get("VERIF_REPO", "/repo")

TARGETS = {
    "IRI_REGEX_SRC": "iri/src/_regex.rs",
    "IRELATIVE_REF_REGEX_SRC": "iri/src/_regex.rs",
    "BNODE_ID": "api/src/term/bnode_id.rs",
    "LANG_TAG": "api/src/term/language_tag.rs",
    "VARNAME": "api/src/term/var_name.rs",
    "PN_PREFIX": "api/src/prefix/_regex.rs",
    "PN_LOCAL": "turtle/src/serializer/_pretty.rs",
    "INTEGER": "turtle/src/serializer/_pretty.rs",
    "DECIMAL": "turtle/src/serializer/_pretty.rs",
    "DOUBLE": "turtle/src/serializer/_pretty.rs",
    "BOOLEAN": "turtle/src/serializer/_pretty.rs",
}


class ExtractError(Exception):
    pass


def extract(name):
    rel = TARGETS[name]
    with open(os.path.join(REPO, rel), encoding="utf-8") as f:
        txt = f.read()
    # NB: no comment stripping: the IRI patterns contain a line consisting of `//` inside the raw string.
    code = txt
    rx = re.compile(r"\b(?:static|const)\s+(?:ref\s+)?%s\s*:[^=;]*=\s*(?:Regex::new\(\s*)?r(#*)\"(.*?)\"\1" % re.escape(name), re.S)
    ms = rx.findall(code)
    if len(ms) != 1:
        raise ExtractError("%s: expected exactly one raw-string definition in %s, found %d" % (name, rel, len(ms)))
    return ms[0][1]


def wiring(checks):
    """checks: [(relpath, regex)] source-text facts the encoding relies on (e.g. Iri::new consults IRI_REGEX).
    Returns the list of facts that do NOT hold."""
    bad = []
    for rel, rx in checks:
        with open(os.path.join(REPO, rel), encoding="utf-8") as f:
            txt = f.read()
        if not re.search(rx, txt, re.S):
            bad.append("%s !~ /%s/" % (rel, rx))
    return bad
