"""Shared plumbing: run context, evidence writer (validated against the schema
before writing), known-findings file, exit protocol.

Exit protocol (brief): 0 = held on everything explored (KNOWN-FINDING lines allowed);
1 = `VIOLATION property=<id> replay=<path>` printed for a violation that replays natively
    and is not listed in known_findings.json;
2 = inconclusive / machinery problem (never a pass, never a violation).
"""
import json
import os
import sys
import time

VERIF = os.path.dirname(os.path.dirname(os.path.abspath(__file__)))
EVIDENCE_DIR = os.environ.get("VERIF_EVIDENCE_DIR") or os.path.join(VERIF, "evidence")
WITNESS_DIR = os.path.join(EVIDENCE_DIR, "witnesses")
KNOWN_FILE = os.path.join(VERIF, "known_findings.json")
SCHEMA = "/root/.vp/EVIDENCE.schema.json"


def log(*a):
    print(*a, flush=True)


class Ctx:
    def __init__(self, pid, tier, seed):
        self.id = pid
        self.tier = tier
        self.seed = seed
        self.t0 = time.time()
        self.level = "model_checking"
        self.coverage = {}
        self.assumptions = []
        self.violations = []      # [(witness_path, text)]
        self.known_lines = []     # ["KNOWN-FINDING: property=.. .."]
        self.inconclusive = []    # [text]
        self.extra = {}

    # -- known findings -------------------------------------------------
    def known_findings(self):
        if not os.path.exists(KNOWN_FILE):
            return []
        with open(KNOWN_FILE) as f:
            data = json.load(f)
        return [e for e in data.get("findings", []) if e.get("property") == self.id]

    def open_findings(self):
        return [e for e in self.known_findings() if e.get("status") == "open"]

    # -- witnesses --------------------------------------------------------
    def write_witness(self, name, obj):
        os.makedirs(WITNESS_DIR, exist_ok=True)
        p = os.path.join(WITNESS_DIR, "%s-%s.json" % (self.id, name))
        with open(p, "w") as f:
            json.dump(obj, f, indent=1, sort_keys=True)
        return p

    def violation(self, witness_path, text):
        self.violations.append((witness_path, text))

    def known(self, text):
        self.known_lines.append("KNOWN-FINDING: property=%s %s" % (self.id, text))

    def inconc(self, text):
        self.inconclusive.append(text)

    # -- evidence ---------------------------------------------------------
    def write_evidence(self):
        ev = {
            "property_id": self.id,
            "tier": self.tier,
            "seed": self.seed,
            "level": self.level,
            "coverage": self.coverage,
            "assumptions": self.assumptions,
            "wall_s": round(time.time() - self.t0, 2),
            "violations": len(self.violations),
        }
        ev.update(self.extra)
        if self.inconclusive:
            ev["inconclusive"] = self.inconclusive
        if self.known_lines:
            ev["known_findings_reported"] = self.known_lines
        problems = validate_evidence(ev)
        os.makedirs(EVIDENCE_DIR, exist_ok=True)
        p = os.path.join(EVIDENCE_DIR, "%s.json" % self.id)
        with open(p, "w") as f:
            json.dump(ev, f, indent=1, sort_keys=False, default=str)
        if problems:
            log("evidence for %s does not validate: %s" % (self.id, problems))
            return False
        return True

    def finish(self):
        ok = self.write_evidence()
        for line in self.known_lines:
            log(line)
        for t in self.inconclusive:
            log("INCONCLUSIVE: %s" % t)
        for wp, text in self.violations:
            log("violation detail: %s" % text)
            log("VIOLATION property=%s replay=%s" % (self.id, wp))
        if self.violations:
            return 1
        if self.inconclusive or not ok:
            return 2
        log("OK property=%s tier=%s wall=%.1fs" % (self.id, self.tier, time.time() - self.t0))
        return 0


def validate_evidence(ev):
    """Validate with jsonschema in the tooling venv (python3-vt) if available, else a minimal structural check."""
    import shutil
    import subprocess
    vt = shutil.which("python3-vt")
    if vt and os.path.exists(SCHEMA):
        code = ("import json,sys,jsonschema\n"
                "s=json.load(open(sys.argv[1]));e=json.load(sys.stdin)\n"
                "print(json.dumps([x.message[:200] for x in jsonschema.Draft202012Validator(s).iter_errors(e)]))\n")
        try:
            p = subprocess.run([vt, "-c", code, SCHEMA], input=json.dumps(ev, default=str), stdout=subprocess.PIPE,
                               stderr=subprocess.PIPE, text=True, timeout=60)
            if p.returncode == 0:
                return json.loads(p.stdout.strip().splitlines()[-1])
        except Exception:
            pass
    probs = []
    for k in ("property_id", "tier", "seed", "level", "coverage", "wall_s"):
        if k not in ev:
            probs.append("missing %s" % k)
    cov = ev.get("coverage", {})
    lvl = ev.get("level")
    if lvl == "model_checking":
        for k in ("states", "transitions", "traces_validated_against_impl", "samples"):
            if k not in cov:
                probs.append("coverage.%s missing" % k)
        if cov.get("states", 0) < 1 or cov.get("transitions", 0) < 1 or not cov.get("samples"):
            probs.append("model_checking minima")
    if lvl == "proof":
        for k in ("obligations", "discharged", "checker_cmd", "trusted_base"):
            if k not in cov:
                probs.append("coverage.%s missing" % k)
        if cov.get("obligations", 0) < 1 or cov.get("discharged", 0) < 1:
            probs.append("proof minima")
    return probs
