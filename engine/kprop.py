"""Generic runner for a property decided by engine K (Kani/CBMC harnesses)."""
import json
import os
import re
import subprocess
import time

from . import kani_run, overlay
from .common import log, VERIF


class KSpec:
    """Everything a K property needs, per tier."""

    def __init__(self, package, crate_dir, harness_files, harnesses, ordset=False, substitutions=(), kani_args=(),
                 jobs=4, encoded=(), bounds=(), outside=(), assumptions=(), expected_fail=None, ordset_cap=4, vecdeque=False):
        self.ordset_cap = ordset_cap
        self.vecdeque = vecdeque
        self.package = package
        self.crate_dir = crate_dir
        self.harness_files = harness_files      # {crate_dir: [files]}
        self.harnesses = harnesses              # [kani_run.Harness]
        self.ordset = ordset
        self.substitutions = substitutions
        self.kani_args = list(kani_args)
        self.jobs = jobs
        self.encoded = list(encoded)
        self.bounds = list(bounds)
        self.outside = list(outside)
        self.assumptions = list(assumptions)
        # harness-name -> finding key: a failure of that harness is *expected* while the
        # finding is open in known_findings.json (used by C16 style oracles).
        self.expected_fail = expected_fail or {}


def native_replay(ctx, spec, meta, harness, test_code, keep=None):
    """Re-execute a Kani counterexample natively (rustc, real dependencies, no shims) through the
    same harness code with the concrete values Kani produced. Returns (reproduced: bool|None, detail)."""
    m = re.search(r"fn (kani_concrete_playback_\w+)", test_code)
    if not m:
        return None, "no playback test name"
    tname = m.group(1)
    # put the test(s) next to the harness function (same module)
    modname = meta["pretty_name"].split("::")[-2]
    ov = overlay.Overlay("%s-replay" % ctx.id, spec.harness_files, ordset=("const-only" if spec.ordset else False), substitutions=spec.substitutions, kani=False,
                         ordset_cap=spec.ordset_cap)
    try:
        vf = os.path.join(ov.root, spec.crate_dir, "src", "__verif.rs")
        with open(vf) as f:
            txt = f.read()
        marker = "pub(crate) mod %s {\n" % modname
        if marker not in txt:
            return None, "module %s not found in native overlay" % modname
        txt = txt.replace(marker, marker + test_code + "\n", 1)
        with open(vf, "w") as f:
            f.write(txt)
        outs = {}
        verdicts = {}
        for prof, extra in (("dev", []),):
            cmd = ["cargo", "kani", "playback", "-Z", "concrete-playback", "-p", spec.package, "--lib"] + extra + ["--", "kani_concrete_playback"]
            p = subprocess.run(cmd, cwd=ov.root, env=kani_run.env_offline(), stdout=subprocess.PIPE,
                               stderr=subprocess.STDOUT, text=True, timeout=1800)
            outs[prof] = p.stdout[-3000:]
            if re.search(r"test result: FAILED|panicked at|SIGSEGV|SIGABRT|stack overflow|test exited abnormally", p.stdout):
                verdicts[prof] = True
            elif re.search(r"test result: ok\. [1-9]\d* passed", p.stdout):
                verdicts[prof] = False
            else:
                verdicts[prof] = None
        rep = verdicts.get("dev")
        return rep, outs.get("dev", "")
    finally:
        ov.close()


def run(ctx, spec):
    ctx.level = "model_checking"
    t_build0 = time.time()
    try:
        ov = overlay.Overlay(ctx.id, spec.harness_files, ordset=spec.ordset, substitutions=spec.substitutions,
                             ordset_cap=spec.ordset_cap, vecdeque=spec.vecdeque)
    except overlay.OverlayMismatch as e:
        ctx.inconc("overlay mismatch: %s" % e)
        _coverage(ctx, spec, [], None, 0.0)
        return
    try:
        try:
            metas, bt = kani_run.build(ov, spec.package, spec.kani_args, log=os.path.join(ov.dir, "build.log"))
        except kani_run.BuildError as e:
            ctx.inconc(str(e)[-3000:])
            _coverage(ctx, spec, [], ov, time.time() - t_build0)
            return
        log("[%s] overlay + kani codegen: %.1fs, %d harnesses compiled, running %d (jobs=%d)" % (
            ctx.id, time.time() - t_build0, len(metas), len(spec.harnesses), spec.jobs))

        def progress(r):
            log("[%s]   %-44s %-8s %6.1fs  steps=%s covers=%d/%d%s" % (
                ctx.id, r["harness"].split("::")[-1], r["outcome"], r["wall_s"], r["stats"].get("program_steps", "?"),
                sum(1 for v in r["covers"].values() if v), len(r["covers"]),
                (" FAILED: " + "; ".join("%s @%s:%s" % (x["description"], x["file"], x["line"]) for x in r["failed"][:3])) if r["failed"] else ""))

        try:
            results = kani_run.run(ov, metas, spec.harnesses, jobs=spec.jobs, progress=progress)
        except kani_run.BuildError as e:
            ctx.inconc(str(e))
            _coverage(ctx, spec, [], ov, time.time() - t_build0)
            return
        replays = 0
        reproduced_any = False
        open_keys = {e["key"]: e for e in ctx.open_findings()}
        for r, h in zip(results, spec.harnesses):
            short = r["harness"].split("::")[-1]
            if r.get("unwindset_unresolved"):
                ctx.inconc("%s: unwindset function not found in the goto binary: %s" % (short, r["unwindset_unresolved"]))
            if r["outcome"] == "pass":
                continue
            if r["outcome"] == "fail":
                meta = kani_run.select(metas, h.name)
                key = spec.expected_fail.get(h.name)
                wit = {"property": ctx.id, "harness": r["harness"], "failed_checks": r["failed"][:10],
                       "unwind": r["unwind"], "unwindset": r["unwindset"], "kind": "kani-counterexample"}
                if h.oracle_unwind:
                    # the oracle is CBMC's (recursion) unwinding assertion; there is no native panic to replay.
                    wit["kind"] = "unwinding-assertion"
                    r["replay"] = "n/a (unwinding assertion is the oracle; native replay handled by the property module)"
                    wp = ctx.write_witness(short, wit)
                    r["witness"] = wp
                    continue
                if reproduced_any or replays >= 3:
                    r["replay"] = "skipped (another counterexample of this run was already replayed)"
                    ctx.write_witness(short, wit)
                    if not reproduced_any:
                        ctx.inconc("%s failed in CBMC; replay budget exhausted" % short)
                    continue
                test_code, err = kani_run.concrete_playback(ov, spec.package, meta, h, spec.kani_args, timeout=max(600, 4 * h.timeout),
                                                            unwindset_entries=r.get("unwindset_entries", ()))
                if not test_code:
                    ctx.inconc("%s failed in CBMC but Kani produced no concrete values: %s" % (short, (err or "")[-300:]))
                    continue
                wit["playback_test"] = test_code
                rep, detail = native_replay(ctx, spec, meta, h, test_code)
                replays += 1
                wit["native_replay"] = {"reproduced": rep, "output_tail": detail[-1500:]}
                wp = ctx.write_witness(short, wit)
                r["witness"] = wp
                r["replay"] = "reproduced" if rep else ("not reproduced" if rep is False else "inconclusive")
                desc = "; ".join("%s (%s:%s)" % (x["description"], x["file"], x["line"]) for x in r["failed"][:3])
                if rep:
                    reproduced_any = True
                    if key and key in open_keys:
                        ctx.known("%s [%s]" % (open_keys[key]["what"], key))
                    else:
                        ctx.violation(wp, "%s: %s" % (short, desc))
                else:
                    ctx.inconc("SPURIOUS? %s failed in CBMC (%s) but the counterexample did not reproduce natively (%s)" % (short, desc, r["replay"]))
            elif r["outcome"] == "vacuous":
                ctx.inconc("%s is vacuous: cover(s) not satisfiable: %s" % (short, r["covers_unsatisfied"]))
            elif r["outcome"] == "unwind":
                ctx.inconc("%s: unwinding assertion failed (bound too small for this tree): %s" % (
                    short, "; ".join("%s:%s" % (x["file"], x["line"]) for x in r["unwind_failed"][:3])))
            else:
                ctx.inconc("%s: %s after %.0fs %s" % (short, r["outcome"], r["wall_s"], r.get("error", "")[-200:]))
        _coverage(ctx, spec, results, ov, bt, replays)
        return results
    finally:
        ov.close()


def _coverage(ctx, spec, results, ov, build_s, replays=0):
    steps = sum(r["stats"].get("program_steps", 0) for r in results)
    vccs = sum(r["stats"].get("vccs", 0) for r in results)
    clauses = sum(r["stats"].get("sat_clauses", 0) for r in results)
    nprops = sum(r.get("n_properties", 0) for r in results)
    passed = sum(1 for r in results if r["outcome"] == "pass")
    samples = []
    for r in results:
        samples.append({
            "harness": r["harness"], "outcome": r["outcome"], "wall_s": r["wall_s"], "unwind": r["unwind"],
            "unwindset": r["unwindset"], "cbmc_properties_checked": r.get("n_properties", 0),
            "covers": r["covers"], "program_steps": r["stats"].get("program_steps"),
            "vccs": r["stats"].get("vccs"), "sat_clauses": r["stats"].get("sat_clauses"),
            "sat_variables": r["stats"].get("sat_variables"),
            "solver_s": r["stats"].get("solver_s"), "symex_s": r["stats"].get("symex_s"), "note": r["note"],
            "failed": [{"description": x["description"], "at": "%s:%s" % (x["file"], x["line"])} for x in r["failed"][:5]],
            "replay": r.get("replay"),
        })
    prev = ctx.coverage if ctx.coverage.get("_k_runs") else None
    cov = {
        "states": max(steps, 1) if results else 0,
        "transitions": max(clauses, vccs, 1) if results else 0,
        "traces_validated_against_impl": replays,
        "samples": samples if samples else [{"note": "no harness ran", "package": spec.package}],
        "exhaustive": bool(results) and passed == len(results),
        "explanation": "states = CBMC symbolic-execution steps summed over harnesses; transitions = SAT clauses (or VCCs) summed; "
                       "each harness is decided by CBMC/cadical for ALL values of its symbolic inputs inside the stated bounds",
        "harnesses_run": len(results),
        "harnesses_passed": passed,
        "cbmc_properties_checked": nprops,
        "vccs": vccs,
        "functions_encoded": list(spec.encoded),
        "bounds": list(spec.bounds),
        "outside_the_claim": list(spec.outside),
        "overlay_differences": list(ov.applied) if ov else [],
        "kani_build_s": round(build_s, 1),
        "solver_time_s": round(sum((r["stats"].get("solver_s") or 0) for r in results), 2),
        "tools": "Kani 0.68.0 (kani-compiler, --only-codegen) + CBMC 6.11.0 + cadical; driver /verif/engine/kani_run.py",
        "_k_runs": 1,
    }
    if prev:
        for k in ("states", "transitions", "traces_validated_against_impl", "harnesses_run", "harnesses_passed",
                  "cbmc_properties_checked", "vccs", "kani_build_s", "solver_time_s", "_k_runs"):
            cov[k] = prev.get(k, 0) + cov[k]
        for k in ("samples", "functions_encoded", "bounds", "outside_the_claim", "overlay_differences"):
            cov[k] = prev.get(k, []) + [x for x in cov[k] if x not in prev.get(k, [])]
        cov["exhaustive"] = bool(prev.get("exhaustive")) and cov["exhaustive"]
    ctx.coverage.update(cov)
    for a in spec.assumptions:
        if a not in ctx.assumptions:
            ctx.assumptions.append(a)
    if ov:
        for a in ov.applied:
            s = "overlay: " + a
            if s not in ctx.assumptions:
                ctx.assumptions.append(s)


def replay(ctx, spec, path):
    """./check <id> --replay <witness>: re-execute a stored Kani counterexample natively on the current tree."""
    with open(path) as f:
        wit = json.load(f)
    if "playback_test" not in wit:
        log("witness %s carries no concrete values (kind=%s)" % (path, wit.get("kind")))
        return 2
    meta = {"pretty_name": wit["harness"]}
    rep, detail = native_replay(ctx, spec, meta, None, wit["playback_test"])
    log(detail[-1500:])
    if rep:
        log("REPRODUCED natively: %s" % "; ".join(x["description"] for x in wit.get("failed_checks", [])[:3]))
        log("VIOLATION property=%s replay=%s" % (ctx.id, path))
        return 1
    if rep is False:
        log("not reproduced on the current tree")
        return 0
    return 2
