#!/usr/bin/env python3
"""Confirm a seeded breaking change in a scratch worktree:
   existing tests pass WITH the patch; the demonstration fails WITH it and passes WITHOUT it.
usage: verify_seed.py <seed_dir> <demo_file> <dest_rel_path> <demo_pkg> <pkgs,comma> """
import os, subprocess, sys, shutil, json
seed, demo, dest, dpkg, pkgs = sys.argv[1:6]
WT = os.environ.get("VERIF_VW", "/tmp/vw")
env = dict(os.environ, CARGO_NET_OFFLINE="true")
def sh(cmd, **kw):
    return subprocess.run(cmd, shell=True, cwd=WT, env=env, stdout=subprocess.PIPE, stderr=subprocess.STDOUT, text=True, **kw)
if not os.path.isdir(WT):
    subprocess.run("git -C /repo worktree add -q %s HEAD && cp /repo/Cargo.lock %s/" % (WT, WT), shell=True, check=True)
sh("git checkout -q --detach $(git -C /repo rev-parse HEAD) && git checkout -- . && git clean -fdq -e target -e Cargo.lock -e _seed")
res = {}
r = sh("git apply %s" % os.path.join(seed, "patch.diff"))
res["apply"] = r.returncode == 0
if not res["apply"]:
    print(r.stdout[-500:])
tname = os.path.splitext(os.path.basename(dest))[0]
r = sh("cargo test --offline %s 2>&1 | grep -E '^test result|FAILED|panicked|error(\\[|:)' | head -40" % " ".join("-p " + p for p in pkgs.split(",")))
res["existing_tests_pass_with_patch"] = ("FAILED" not in r.stdout and "error" not in r.stdout and "test result: ok" in r.stdout)
res["existing_tail"] = r.stdout[-600:]
os.makedirs(os.path.dirname(os.path.join(WT, dest)), exist_ok=True)
shutil.copy(demo, os.path.join(WT, dest))
r = sh("cargo test --offline -p %s --test %s 2>&1 | tail -15" % (dpkg, tname))
res["demo_fails_with_patch"] = ("test result: FAILED" in r.stdout or "FAILED" in r.stdout or "SIGSEGV" in r.stdout or "SIGABRT" in r.stdout or "overflowed its stack" in r.stdout)
res["demo_with_tail"] = r.stdout[-500:]
sh("git apply -R %s" % os.path.join(seed, "patch.diff"))
r = sh("cargo test --offline -p %s --test %s 2>&1 | tail -8" % (dpkg, tname))
res["demo_passes_without_patch"] = ("test result: ok" in r.stdout and "FAILED" not in r.stdout)
res["demo_without_tail"] = r.stdout[-300:]
sh("git checkout -- . && git clean -fdq -e target -e Cargo.lock -e _seed")
ok = all(res[k] for k in ("apply", "existing_tests_pass_with_patch", "demo_fails_with_patch", "demo_passes_without_patch"))
res["confirmed"] = ok
print(json.dumps({k: v for k, v in res.items() if not k.endswith("tail")}))
if not ok:
    print(json.dumps(res, indent=1))
sys.exit(0 if ok else 1)
