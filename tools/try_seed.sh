#!/bin/sh
# usage: try_seed.sh <patch.diff> <ID> [tier]   — apply to /repo, run the check, always revert
P=$1; ID=$2; TIER=${3:-quick}
cd /repo && git status --short | grep -q . && { echo "/repo dirty"; exit 9; }
git -C /repo apply "$P" || { echo "patch does not apply"; exit 9; }
cd /verif && ./check $ID --tier $TIER > /tmp/try_$ID.log 2>&1; rc=$?
git -C /repo checkout -- . ; git -C /repo clean -fdq -e target -e Cargo.lock
echo "exit=$rc"; grep -E "^VIOLATION|^INCONCLUSIVE|^KNOWN|^OK" /tmp/try_$ID.log | cut -c1-400
exit $rc
