#!/bin/sh
# usage: try_seed.sh <patch.diff> <ID> [tier]
# Applies the patch in a scratch worktree of /repo's HEAD (never in /repo itself), points the check at it
# (VERIF_REPO) with a private evidence directory, and removes nothing from /verif/evidence.
P=$1; ID=$2; TIER=${3:-quick}
WT=/tmp/seedwt_$ID
if [ ! -d $WT ]; then git -C /repo worktree add -q --detach $WT HEAD || exit 9; fi
git -C $WT checkout -q --detach $(git -C /repo rev-parse HEAD) && git -C $WT checkout -- . && git -C $WT clean -fdq
cp /repo/Cargo.lock $WT/ 2>/dev/null
git -C $WT apply "$P" || { echo "patch does not apply"; exit 9; }
mkdir -p /tmp/seed_evidence_$ID
cd /verif && VERIF_REPO=$WT VERIF_EVIDENCE_DIR=/tmp/seed_evidence_$ID ./check $ID --tier $TIER > /tmp/try_$ID.log 2>&1; rc=$?
git -C $WT checkout -- . ; git -C $WT clean -fdq
echo "exit=$rc"; grep -E "^VIOLATION|^INCONCLUSIVE|^KNOWN|^OK" /tmp/try_$ID.log | cut -c1-400
exit $rc
