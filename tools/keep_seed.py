#!/usr/bin/env python3
"""keep_seed.py <id> <property> <seed_dir> <demo_file> <dest_rel> <needs> <detected_by> <result> """
import sys, os, shutil, json
sid, prop, sdir, demo, dest, needs, by, result = sys.argv[1:9]
out = os.path.join("/verif/seeded", sid)
os.makedirs(out, exist_ok=True)
shutil.copy(os.path.join(sdir, "patch.diff"), out)
shutil.copy(demo, os.path.join(out, os.path.basename(demo)))
if os.path.exists(os.path.join(sdir, "README.txt")):
    shutil.copy(os.path.join(sdir, "README.txt"), os.path.join(out, "README.txt"))
meta = {"id": sid, "breaks_property": prop, "needs_to_manifest": needs,
        "demonstration": {"file": os.path.basename(demo), "place_at": dest, "run": "cargo test --offline --test %s" % os.path.splitext(os.path.basename(dest))[0]},
        "confirmed_by": "tools/verify_seed.py in scratch worktree /tmp/vw: existing tests pass with the patch; demo fails with it and passes without it",
        "check_run": "tools/try_seed.sh %s/patch.diff %s" % (out, prop), "detected_by": by, "check_result": result,
        "origin": "independent sub-agent given only the property text and a scratch worktree"}
json.dump(meta, open(os.path.join(out, "meta.json"), "w"), indent=1)
print("kept", out)
