//! rt: serialise-and-parse-back / parse-and-inspect replays for C03, C04, C08.
//! stdin lines: "<mode>\t<kind>\t<escaped string>"; one output line each.
//!
//!  mode "nt"  (C03): build a term of <kind> from the string, put it in a triple/quad, serialise with
//!                    NtSerializer/NqSerializer, parse back with the real nt/nq parsers, compare exactly.
//!                    kinds: bnode, iri, lang (tag of a literal), lex (lexical form, xsd:string),
//!                           lexdt (lexical form with another datatype), gname (graph name IRI), gbnode
//!  mode "ttl" (C04): serialise a one-triple graph with TurtleSerializer (pretty and streaming) and a prefix map,
//!                    parse back with the real turtle parser, compare.
//!                    kinds: integer, decimal, double, boolean (lexical form with that datatype),
//!                           local (IRI = http://example.org/ns/ + string, prefix p:), prefix (prefix name = string)
//!  mode "parse" (C08): put the token into a document, parse with the real parsers, touch every accessor.
//!                    kinds: nt_bnode, ttl_bnode, ttl_lang, nt_lang, ttl_prefix, ttl_iri, nt_iri, gtrig_var
//!  answers: ok | n/a:<why> | VIOLATION:<detail>
use crate::rx::unescape;
use sophia_api::prelude::*;
use sophia_api::ns::xsd;
use sophia_api::prefix::Prefix;
use sophia_api::term::{BnodeId, LanguageTag, SimpleTerm, VarName};
use sophia_turtle::parser::{gtrig, nq, nt, turtle};
use sophia_turtle::serializer::nq::NqSerializer;
use sophia_turtle::serializer::nt::NtSerializer;
use sophia_turtle::serializer::turtle::{TurtleConfig, TurtleSerializer};
use std::io::{self, BufRead};
use std::panic;

type G = Vec<[SimpleTerm<'static>; 3]>;
type D = Vec<([SimpleTerm<'static>; 3], Option<SimpleTerm<'static>>)>;

fn iri(s: &str) -> SimpleTerm<'static> {
    SimpleTerm::Iri(IriRef::new_unchecked(s.to_string().into()))
}
fn lit_dt(lex: &str, dt: &str) -> SimpleTerm<'static> {
    SimpleTerm::LiteralDatatype(lex.to_string().into(), IriRef::new_unchecked(dt.to_string().into()))
}

fn same_terms(a: &SimpleTerm, b: &SimpleTerm) -> bool {
    // exact comparison, language tags compared case-insensitively (they are the same RDF term)
    Term::eq(a, b.borrow_term())
}

fn show(t: &SimpleTerm) -> String {
    format!("{t:?}")
}

fn nt_mode(kind: &str, s: &str) -> String {
    let s0 = iri("http://example.org/s");
    let p0 = iri("http://example.org/p");
    let o0 = iri("http://example.org/o");
    let mut gname: Option<SimpleTerm<'static>> = None;
    let triple: [SimpleTerm<'static>; 3] = match kind {
        "bnode" => match BnodeId::new(s.to_string()) {
            Ok(b) => [SimpleTerm::BlankNode(b.map_unchecked(Into::into)), p0, o0],
            Err(_) => return "n/a:not a valid BnodeId".into(),
        },
        "iri" => match Iri::new(s.to_string()) {
            Ok(_) => [s0, p0, iri(s)],
            Err(_) => return "n/a:not a valid absolute IRI".into(),
        },
        "lang" => match LanguageTag::new(s.to_string()) {
            Ok(t) => [s0, p0, SimpleTerm::LiteralLanguage("x".into(), t.map_unchecked(Into::into))],
            Err(_) => return "n/a:not a valid LanguageTag".into(),
        },
        "lex" => [s0, p0, lit_dt(s, "http://www.w3.org/2001/XMLSchema#string")],
        "lexdt" => [s0, p0, lit_dt(s, "http://example.org/dt")],
        // ill-typed literals are legal RDF: escaping must not depend on the datatype
        "lexint" => [s0, p0, lit_dt(s, "http://www.w3.org/2001/XMLSchema#integer")],
        "lexbool" => [s0, p0, lit_dt(s, "http://www.w3.org/2001/XMLSchema#boolean")],
        "lexdouble" => [s0, p0, lit_dt(s, "http://www.w3.org/2001/XMLSchema#double")],
        "lexdecimal" => [s0, p0, lit_dt(s, "http://www.w3.org/2001/XMLSchema#decimal")],
        "gname" => match Iri::new(s.to_string()) {
            Ok(_) => {
                gname = Some(iri(s));
                [s0, p0, o0]
            }
            Err(_) => return "n/a:not a valid absolute IRI".into(),
        },
        "gbnode" => match BnodeId::new(s.to_string()) {
            Ok(b) => {
                gname = Some(SimpleTerm::BlankNode(b.map_unchecked(Into::into)));
                [s0, p0, o0]
            }
            Err(_) => return "n/a:not a valid BnodeId".into(),
        },
        _ => return "n/a:unknown kind".into(),
    };
    // N-Triples
    if gname.is_none() {
        let g: G = vec![triple.clone()];
        let mut ser = NtSerializer::new_stringifier();
        if let Err(e) = ser.serialize_graph(&g) {
            return format!("VIOLATION:nt serializer failed: {e}");
        }
        let txt = ser.to_string();
        if txt.lines().count() != 1 {
            return format!("VIOLATION:nt output is not one statement per line: {txt:?}");
        }
        let back: Result<G, _> = nt::parse_str(&txt).collect_triples();
        match back {
            Err(e) => return format!("VIOLATION:nt output {txt:?} does not parse back: {e}"),
            Ok(b) => {
                if b.len() != 1 || !(0..3).all(|i| same_terms(&b[0][i], &g[0][i])) {
                    return format!("VIOLATION:nt round trip changed the triple: {txt:?} -> {:?}", b.iter().map(|t| t.iter().map(show).collect::<Vec<_>>()).collect::<Vec<_>>());
                }
            }
        }
    }
    // N-Quads
    let d: D = vec![(triple.clone(), gname.clone())];
    let mut ser = NqSerializer::new_stringifier();
    if let Err(e) = ser.serialize_dataset(&d) {
        return format!("VIOLATION:nq serializer failed: {e}");
    }
    let txt = ser.to_string();
    if txt.lines().count() != 1 {
        return format!("VIOLATION:nq output is not one statement per line: {txt:?}");
    }
    let back: Result<D, _> = nq::parse_str(&txt).collect_quads();
    match back {
        Err(e) => format!("VIOLATION:nq output {txt:?} does not parse back: {e}"),
        Ok(b) => {
            let okq = b.len() == 1
                && (0..3).all(|i| same_terms(&b[0].0[i], &d[0].0[i]))
                && match (&b[0].1, &d[0].1) {
                    (None, None) => true,
                    (Some(x), Some(y)) => same_terms(x, y),
                    _ => false,
                };
            if okq { "ok".into() } else { format!("VIOLATION:nq round trip changed the quad: {txt:?}") }
        }
    }
}

fn ttl_mode(kind: &str, s: &str) -> String {
    let s0 = iri("http://example.org/s");
    let p0 = iri("http://example.org/p");
    let mut pm = TurtleConfig::default_prefix_map();
    let o: SimpleTerm<'static> = match kind {
        "integer" | "decimal" | "double" | "boolean" => lit_dt(s, &format!("http://www.w3.org/2001/XMLSchema#{kind}")),
        "local" => {
            let full = format!("http://example.org/ns/{s}");
            if Iri::new(full.as_str()).is_err() {
                return "n/a:ns+suffix is not a valid IRI".into();
            }
            pm.push((Prefix::new_unchecked("p".into()), Iri::new_unchecked("http://example.org/ns/".into())));
            iri(&full)
        }
        "prefix" => {
            match Prefix::new(s.to_string()) {
                Ok(_) => {}
                Err(_) => return "n/a:not a valid Prefix".into(),
            }
            pm.push((Prefix::new_unchecked(s.to_string().into()), Iri::new_unchecked("http://example.org/ns/".into())));
            iri("http://example.org/ns/x")
        }
        _ => return "n/a:unknown kind".into(),
    };
    let g: G = vec![[s0, p0, o]];
    for pretty in [true, false] {
        let cfg = TurtleConfig::new().with_pretty(pretty).with_own_prefix_map(pm.clone());
        let mut ser = TurtleSerializer::new_stringifier_with_config(cfg);
        if let Err(e) = ser.serialize_graph(&g) {
            return format!("VIOLATION:turtle serializer (pretty={pretty}) failed: {e}");
        }
        let txt = ser.to_string();
        let back: Result<G, _> = turtle::parse_str(&txt).collect_triples();
        match back {
            Err(e) => return format!("VIOLATION:turtle output (pretty={pretty}) {txt:?} does not parse back: {e}"),
            Ok(b) => {
                if b.len() != 1 || !(0..3).all(|i| same_terms(&b[0][i], &g[0][i])) {
                    return format!(
                        "VIOLATION:turtle round trip (pretty={pretty}) changed the triple: {txt:?} -> {:?}",
                        b.iter().map(|t| t.iter().map(show).collect::<Vec<_>>()).collect::<Vec<_>>()
                    );
                }
            }
        }
    }
    "ok".into()
}

/// touch every accessor of a parsed term; panics propagate to the caller's catch_unwind
fn touch<T: Term>(t: T) -> Result<(), String> {
    let st: SimpleTerm = t.as_simple();
    match &st {
        SimpleTerm::Iri(i) => {
            if IriRef::new(i.as_str()).is_err() {
                return Err(format!("parser yielded IRI {:?} rejected by the IRI validator", i.as_str()));
            }
        }
        SimpleTerm::BlankNode(b) => {
            if BnodeId::new(b.as_str()).is_err() {
                return Err(format!("parser yielded blank node label {:?} rejected by BnodeId::new", b.as_str()));
            }
        }
        SimpleTerm::LiteralLanguage(_, tag) => {
            if LanguageTag::new(tag.as_str()).is_err() {
                return Err(format!("parser yielded language tag {:?} rejected by LanguageTag::new", tag.as_str()));
            }
        }
        SimpleTerm::LiteralDatatype(_, dt) => {
            if IriRef::new(dt.as_str()).is_err() {
                return Err(format!("parser yielded datatype {:?} rejected by the IRI validator", dt.as_str()));
            }
        }
        SimpleTerm::Variable(v) => {
            if VarName::new(v.as_str()).is_err() {
                return Err(format!("parser yielded variable {:?} rejected by VarName::new", v.as_str()));
            }
        }
        SimpleTerm::Triple(tr) => {
            for x in tr.iter() {
                touch(x)?;
            }
        }
    }
    Ok(())
}

fn parse_mode(kind: &str, s: &str) -> String {
    let doc = match kind {
        "nt_bnode" | "ttl_bnode" => format!("_:{s} <http://example.org/p> _:{s} .\n"),
        "nt_lang" | "ttl_lang" => format!("<http://example.org/s> <http://example.org/p> \"x\"@{s} .\n"),
        "nt_iri" | "ttl_iri" => format!("<http://example.org/s> <http://example.org/p> <{s}> .\n"),
        "ttl_prefix" => format!("@prefix {s}: <http://example.org/ns/> .\n{s}:a <http://example.org/p> {s}:b .\n"),
        "gtrig_var" => format!("?{s} <http://example.org/p> ?{s} .\n"),
        "ttl_pname" => {
            // s = namespace IRI, U+001F, local name (decoded); the local name is re-escaped for Turtle
            let mut it = s.splitn(2, '\u{1f}');
            let ns = it.next().unwrap_or("");
            let local = it.next().unwrap_or("");
            let mut esc = String::new();
            for c in local.chars() {
                if "~.-!$&'()*+,;=/?#@%_".contains(c) {
                    esc.push('\\');
                }
                esc.push(c);
            }
            format!("@prefix p: <{ns}> .\n<http://example.org/s> <http://example.org/p> p:{esc} .\n")
        }
        _ => return "n/a:unknown kind".into(),
    };
    let kind = kind.to_string();
    let r = panic::catch_unwind(move || -> Result<usize, String> {
        let mut n = 0usize;
        let mut err: Option<String> = None;
        macro_rules! drive_t {
            ($src:expr) => {{
                let res = $src.try_for_each_triple(|t| -> Result<(), std::convert::Infallible> {
                    n += 1;
                    for x in t.spo() {
                        if let Err(e) = touch(x) {
                            err = Some(e);
                        }
                    }
                    Ok(())
                });
                if res.is_err() {
                    return Err("rejected".into());
                }
            }};
        }
        macro_rules! drive_q {
            ($src:expr) => {{
                let res = $src.try_for_each_quad(|q| -> Result<(), std::convert::Infallible> {
                    n += 1;
                    for x in q.spog().0 {
                        if let Err(e) = touch(x) {
                            err = Some(e);
                        }
                    }
                    Ok(())
                });
                if res.is_err() {
                    return Err("rejected".into());
                }
            }};
        }
        if kind == "ttl_pname" {
            drive_t!(turtle::parse_str(&doc));
        } else if kind.starts_with("nt_") {
            drive_t!(nt::parse_str(&doc));
        } else if kind.starts_with("ttl_") {
            drive_t!(turtle::parse_str(&doc));
        } else {
            drive_q!(gtrig::parse_str(&doc));
        }
        match err {
            Some(e) => Err(e),
            None => Ok(n),
        }
    });
    match r {
        Err(_) => "VIOLATION:panic while parsing / reading terms".into(),
        Ok(Err(e)) if e == "rejected" => "n/a:the real parser rejects this token (grammar-only witness)".into(),
        Ok(Err(e)) => format!("VIOLATION:{e}"),
        Ok(Ok(0)) => "n/a:no statement produced".into(),
        Ok(Ok(_)) => "ok".into(),
    }
}

/// "fmt": print the exact N-Triples / N-Quads text of one fixed triple / named-graph quad (format precondition of the
/// serializer harnesses of C15, which compare bytes).
fn fmt_mode() -> i32 {
    let t = [iri("a"), iri("b"), iri("c")];
    let g: G = vec![t.clone()];
    let mut ser = NtSerializer::new_stringifier();
    ser.serialize_graph(&g).unwrap();
    print!("NT:{}", ser.to_string().replace('\n', "\\n"));
    println!();
    let d: D = vec![(t.clone(), Some(iri("b"))), (t, None)];
    let mut ser = NqSerializer::new_stringifier();
    ser.serialize_dataset(&d).unwrap();
    print!("NQ:{}", ser.to_string().replace('\n', "\\n"));
    println!();
    0
}

pub fn main(args: &[String]) -> i32 {
    if args.first().map(String::as_str) == Some("fmt") {
        return fmt_mode();
    }
    panic::set_hook(Box::new(|_| {}));
    for line in io::stdin().lock().lines() {
        let line = line.unwrap();
        let parts: Vec<&str> = line.splitn(3, '\t').collect();
        if parts.len() != 3 {
            println!("n/a:bad request");
            continue;
        }
        let s = unescape(parts[2]);
        let (mode, kind) = (parts[0].to_string(), parts[1].to_string());
        let r = panic::catch_unwind(move || match mode.as_str() {
            "nt" => nt_mode(&kind, &s),
            "ttl" => ttl_mode(&kind, &s),
            "parse" => parse_mode(&kind, &s),
            _ => "n/a:unknown mode".into(),
        });
        match r {
            Ok(a) => println!("{}", a.replace('\n', "\\n")),
            Err(_) => println!("VIOLATION:panic"),
        }
    }
    0
}
