//! rx: evaluate strings against (a) a pattern text compiled with the REAL regex crate, (b) the real validators.
//! stdin: one request per line, tab-separated:  <mode>\t<arg>\t<string escaped as \u{..} for non-ASCII-printables>
//!   mode "raw":  arg = file containing the pattern text      -> real regex crate on the extracted pattern
//!   mode "val":  arg = validator name (iri, iriref, relref, bnode, langtag, varname, prefix)
//! stdout: one line per request: "1" / "0"
use std::collections::HashMap;
use std::io::{self, BufRead, Write};

pub fn unescape(s: &str) -> String {
    let mut out = String::new();
    let mut it = s.chars().peekable();
    while let Some(c) = it.next() {
        if c == '\\' {
            match it.next() {
                Some('u') => {
                    assert_eq!(it.next(), Some('{'));
                    let mut h = String::new();
                    for d in it.by_ref() {
                        if d == '}' {
                            break;
                        }
                        h.push(d);
                    }
                    out.push(char::from_u32(u32::from_str_radix(&h, 16).unwrap()).unwrap());
                }
                Some('\\') => out.push('\\'),
                Some(o) => {
                    out.push('\\');
                    out.push(o)
                }
                None => out.push('\\'),
            }
        } else {
            out.push(c);
        }
    }
    out
}

pub fn validator(name: &str, s: &str) -> bool {
    match name {
        "iri" => sophia_iri::Iri::new(s).is_ok(),
        "iriref" => sophia_iri::IriRef::new(s).is_ok(),
        "is_absolute_iri_ref" => sophia_iri::is_absolute_iri_ref(s),
        "relref" => sophia_iri::is_relative_iri_ref(s),
        "bnode" => sophia_api::term::BnodeId::new(s).is_ok(),
        "langtag" => sophia_api::term::LanguageTag::new(s).is_ok(),
        "varname" => sophia_api::term::VarName::new(s).is_ok(),
        "prefix" => !s.is_empty() && sophia_api::prefix::Prefix::new(s).is_ok(),
        _ => panic!("unknown validator {name}"),
    }
}

pub fn main(_args: &[String]) -> i32 {
    let stdin = io::stdin();
    let mut cache: HashMap<String, regex::Regex> = HashMap::new();
    let out = io::stdout();
    let mut out = out.lock();
    for line in stdin.lock().lines() {
        let line = line.unwrap();
        let parts: Vec<&str> = line.splitn(3, '\t').collect();
        if parts.len() != 3 {
            continue;
        }
        let s = unescape(parts[2]);
        let r = match parts[0] {
            "raw" => {
                let re = cache.entry(parts[1].to_string()).or_insert_with(|| {
                    let src = std::fs::read_to_string(parts[1]).unwrap();
                    regex::Regex::new(&src).unwrap()
                });
                re.is_match(&s)
            }
            "val" => validator(parts[1], &s),
            _ => panic!("bad mode"),
        };
        writeln!(out, "{}", if r { 1 } else { 0 }).unwrap();
    }
    0
}
