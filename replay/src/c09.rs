//! C09 replay: for each stdin line (escaped string): real validators + "usable as a base without panicking".
//! Output per line: "<iri_ok> <iriref_ok> <relref_ok> <base> <resolver_parses_as_absolute> <resolver_parses_as_reference>"  base: ok | panic | resolved-invalid | n/a
use crate::rx::unescape;
use std::io::{self, BufRead};
use std::panic;

/// "ns" mode: each stdin line is "<namespace>\u{1f}<suffix>" (escaped); prints "1" if Namespace::new(ns) succeeds and
/// ns.get(suffix) is Ok, "0" if get() is Err, "n/a" if the namespace itself is rejected.
fn ns_mode() -> i32 {
    for line in io::stdin().lock().lines() {
        let s = unescape(&line.unwrap());
        let mut it = s.splitn(2, '\u{1f}');
        let ns = it.next().unwrap_or("").to_string();
        let suffix = it.next().unwrap_or("").to_string();
        match sophia_api::ns::Namespace::new(ns.as_str()) {
            Err(_) => println!("n/a"),
            Ok(n) => println!("{}", if n.get(&suffix).is_ok() { 1 } else { 0 }),
        }
    }
    0
}

fn hex(s: &str) -> String {
    let mut o = String::from("x");
    for b in s.as_bytes() {
        o.push_str(&format!("{:02x}", b));
    }
    o
}

/// "resolve" mode: each stdin line is "<base>\u{1f}<reference>" (escaped). Prints, hex-encoded and space-separated, what the
/// four resolving entry points of sophia_iri return: Iri::resolve, IriRef::resolve, Iri::as_base().resolve,
/// Iri::as_base().resolve_into — or "n/a" when base / reference are not accepted, "panic" when one of them panics.
fn resolve_mode() -> i32 {
    for line in io::stdin().lock().lines() {
        let s = unescape(&line.unwrap());
        let mut it = s.splitn(2, '\u{1f}');
        let base = it.next().unwrap_or("").to_string();
        let rel = it.next().unwrap_or("").to_string();
        if sophia_iri::Iri::new(base.as_str()).is_err() || sophia_iri::IriRef::new(rel.as_str()).is_err() {
            println!("n/a");
            continue;
        }
        let r = panic::catch_unwind(move || {
            let b = sophia_iri::Iri::new(base.as_str()).unwrap();
            let br = sophia_iri::IriRef::new(base.as_str()).unwrap();
            let r = sophia_iri::IriRef::new(rel.as_str()).unwrap();
            let r1 = b.resolve(r);
            let r2 = br.resolve(r);
            let r3 = b.as_base().resolve(r);
            let mut buf = String::new();
            let bb = b.as_base();
            let r4 = bb.resolve_into(r, &mut buf).as_str().to_string();
            format!("{} {} {} {}", hex(r1.as_str()), hex(r2.as_str()), hex(r3.as_str()), hex(&r4))
        });
        match r {
            Ok(l) => println!("{l}"),
            Err(_) => println!("panic"),
        }
    }
    0
}

pub fn main(args: &[String]) -> i32 {
    panic::set_hook(Box::new(|_| {}));
    if args.first().map(String::as_str) == Some("resolve") {
        return resolve_mode();
    }
    if args.first().map(String::as_str) == Some("ns") {
        return ns_mode();
    }
    for line in io::stdin().lock().lines() {
        let s = unescape(&line.unwrap());
        let iri_ok = sophia_iri::Iri::new(s.as_str()).is_ok();
        let ref_ok = sophia_iri::IriRef::new(s.as_str()).is_ok();
        let rel_ok = sophia_iri::is_relative_iri_ref(&s);
        let base = if iri_ok {
            let s2 = s.clone();
            match panic::catch_unwind(move || {
                let i = sophia_iri::Iri::new(s2.as_str()).unwrap();
                let b = i.as_base();
                // resolving the empty reference and a simple relative path must not panic either
                let r1 = b.resolve(sophia_iri::IriRef::new_unchecked(""));
                let r2 = b.resolve(sophia_iri::IriRef::new_unchecked("x/../y?q#f"));
                (sophia_iri::Iri::new(r1.as_str().to_string()).is_ok(), sophia_iri::Iri::new(r2.as_str().to_string()).is_ok())
            }) {
                Ok((true, true)) => "ok",
                Ok(_) => "resolved-invalid",
                Err(_) => "panic",
            }
        } else if ref_ok {
            let s2 = s.clone();
            match panic::catch_unwind(move || {
                let i = sophia_iri::IriRef::new(s2.as_str()).unwrap();
                let _b = i.as_base();
            }) {
                Ok(()) => "ok",
                Err(_) => "panic",
            }
        } else {
            "n/a"
        };
        let ox_abs = sophia_iri::resolve::BaseIri::new(s.as_str()).is_ok();
        let ox_ref = sophia_iri::resolve::BaseIriRef::new(s.as_str()).is_ok();
        println!("{} {} {} {} {} {}", iri_ok as u8, ref_ok as u8, rel_ok as u8, base, ox_abs as u8, ox_ref as u8);
    }
    0
}
