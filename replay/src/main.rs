//! verif_replay <property> <args...>  — re-executes a witness through the PUBLIC API of the real build.
//! Exit 0: property holds on this witness; exit 1: violated (a line "REPLAY-VIOLATION ..." is printed);
//! a crash (stack overflow => SIGSEGV/SIGABRT) is observed by the caller through the exit status.
use std::process::exit;

mod c16;
mod rx;
mod c09;
mod rt;
mod c15;

fn main() {
    let args: Vec<String> = std::env::args().collect();
    if args.len() < 2 {
        eprintln!("usage: verif_replay <property> ...");
        exit(2);
    }
    let code = match args[1].as_str() {
        "c16" => c16::main(&args[2..]),
        "rx" => rx::main(&args[2..]),
        "c09" => c09::main(&args[2..]),
        "rt" => rt::main(&args[2..]),
        "c15" => c15::main(&args[2..]),
        other => {
            eprintln!("unknown property {other}");
            2
        }
    };
    exit(code);
}
