//! C15 native fault corpus (the "replay only" half of the design: real parsers as sources, real io::Error, real stores).
//! Enumerates single-fault positions on a few small real pipelines and prints one line
//! "REPLAY-VIOLATION c15 <scenario> <detail>" per deviation; exit 1 if any.
use sophia_api::prelude::*;
use sophia_api::source::StreamError;
use sophia_api::term::SimpleTerm;
use sophia_inmem::dataset::{FastDataset, LightDataset};
use sophia_inmem::graph::{FastGraph, LightGraph};
use sophia_turtle::parser::turtle;
use sophia_turtle::serializer::nq::NqSerializer;
use sophia_turtle::serializer::nt::NtSerializer;
use std::cell::Cell;
use std::io;
use std::rc::Rc;

type T = SimpleTerm<'static>;
fn iri(s: &str) -> T {
    SimpleTerm::Iri(IriRef::new_unchecked(format!("http://example.org/{s}").into()))
}

#[derive(Debug)]
struct SrcErr(usize);
impl std::fmt::Display for SrcErr {
    fn fmt(&self, f: &mut std::fmt::Formatter<'_>) -> std::fmt::Result {
        write!(f, "source fault at {}", self.0)
    }
}
impl std::error::Error for SrcErr {}

/// iterator source over quads with a fault at `fault` and a shared pull counter
struct QSrc {
    items: Vec<([T; 3], Option<T>)>,
    pos: usize,
    fault: usize,
    pulled: Rc<Cell<usize>>,
}
impl Iterator for QSrc {
    type Item = Result<([T; 3], Option<T>), SrcErr>;
    fn next(&mut self) -> Option<Self::Item> {
        if self.pos >= self.items.len() {
            return None;
        }
        let i = self.pos;
        self.pos += 1;
        self.pulled.set(self.pos);
        if i == self.fault { Some(Err(SrcErr(i))) } else { Some(Ok(self.items[i].clone())) }
    }
}
struct TSrc(QSrc);
impl Iterator for TSrc {
    type Item = Result<[T; 3], SrcErr>;
    fn next(&mut self) -> Option<Self::Item> {
        self.0.next().map(|r| r.map(|q| q.0))
    }
}

/// writer failing when `budget` bytes have been accepted; `transient`: only the first refused write fails
struct BW {
    buf: Rc<std::cell::RefCell<Vec<u8>>>,
    budget: usize,
    transient: bool,
    failed: bool,
}
impl io::Write for BW {
    fn write(&mut self, data: &[u8]) -> io::Result<usize> {
        let mut b = self.buf.borrow_mut();
        for (i, byte) in data.iter().enumerate() {
            if b.len() >= self.budget && !(self.transient && self.failed) {
                if i == 0 {
                    self.failed = true;
                    return Err(io::Error::new(io::ErrorKind::Other, "budget"));
                }
                return Ok(i); // partial write; the error is reported by the next call
            }
            b.push(*byte);
        }
        Ok(data.len())
    }
    fn flush(&mut self) -> io::Result<()> {
        Ok(())
    }
}

fn quads() -> Vec<([T; 3], Option<T>)> {
    vec![
        ([iri("a"), iri("p"), iri("b")], Some(iri("g"))),
        ([iri("b"), iri("p"), iri("c")], None),
        ([iri("c"), iri("q"), iri("a")], Some(iri("g"))),
    ]
}

fn serializers(bad: &mut Vec<String>) {
    let qs = quads();
    for nq in [false, true] {
        // text of each prefix of the items, from the real serializer without faults
        let text_of = |k: usize| -> Vec<u8> {
            let buf = Rc::new(std::cell::RefCell::new(Vec::new()));
            let w = BW { buf: buf.clone(), budget: usize::MAX, transient: false, failed: false };
            let src = QSrc { items: qs[..k].to_vec(), pos: 0, fault: usize::MAX, pulled: Rc::new(Cell::new(0)) };
            if nq {
                NqSerializer::new(w).serialize_quads(src).map(|_| ()).unwrap();
            } else {
                NtSerializer::new(w).serialize_triples(TSrc(src)).map(|_| ()).unwrap();
            }
            let v = buf.borrow().clone();
            v
        };
        let full = text_of(qs.len());
        let name = if nq { "nq_serializer" } else { "nt_serializer" };
        // source fault at k
        for k in 0..qs.len() {
            let buf = Rc::new(std::cell::RefCell::new(Vec::new()));
            let w = BW { buf: buf.clone(), budget: usize::MAX, transient: false, failed: false };
            let pulled = Rc::new(Cell::new(0));
            let src = QSrc { items: qs.clone(), pos: 0, fault: k, pulled: pulled.clone() };
            let r = if nq { NqSerializer::new(w).serialize_quads(src).map(|_| ()) } else { NtSerializer::new(w).serialize_triples(TSrc(src)).map(|_| ()) };
            let out = buf.borrow().clone();
            match r {
                Err(StreamError::SourceError(_)) => {}
                other => bad.push(format!("{name} source fault at {k}: expected SourceError, got {:?}", other.map_err(|e| e.to_string()))),
            }
            if out != text_of(k) {
                bad.push(format!("{name} source fault at {k}: output is not the serialisation of the {k} items before the fault ({} bytes written)", out.len()));
            }
            if pulled.get() != k + 1 {
                bad.push(format!("{name} source fault at {k}: source pulled {} times", pulled.get()));
            }
        }
        // writer fault at every byte budget, persistent and transient
        for transient in [false, true] {
            for b in 0..full.len() {
                let buf = Rc::new(std::cell::RefCell::new(Vec::new()));
                let w = BW { buf: buf.clone(), budget: b, transient, failed: false };
                let pulled = Rc::new(Cell::new(0));
                let src = QSrc { items: qs.clone(), pos: 0, fault: usize::MAX, pulled: pulled.clone() };
                // the serializer is kept: after a transient fault it is used again for a second, unrelated stream
                let mut ser_q = if nq { Some(NqSerializer::new(w)) } else { None };
                let mut ser_t = if nq { None } else { Some(NtSerializer::new(BW { buf: buf.clone(), budget: b, transient, failed: false })) };
                let r = if nq { ser_q.as_mut().unwrap().serialize_quads(src).map(|_| ()) } else { ser_t.as_mut().unwrap().serialize_triples(TSrc(src)).map(|_| ()) };
                let out = buf.borrow().clone();
                if transient {
                    let src2 = QSrc { items: qs[..1].to_vec(), pos: 0, fault: usize::MAX, pulled: Rc::new(Cell::new(0)) };
                    let r2 = if nq { ser_q.as_mut().unwrap().serialize_quads(src2).map(|_| ()) } else { ser_t.as_mut().unwrap().serialize_triples(TSrc(src2)).map(|_| ()) };
                    let out2 = buf.borrow().clone();
                    if r2.is_err() || out2[out.len()..] != text_of(1)[..] {
                        bad.push(format!("{name} reused after a transient writer fault at byte {b}: the second stream wrote {:?} instead of exactly its own single statement", String::from_utf8_lossy(&out2[out.len()..])));
                    }
                }
                match r {
                    Err(StreamError::SinkError(_)) => {}
                    other => bad.push(format!("{name} writer fault at byte {b} (transient={transient}): expected SinkError, got {:?}", other.map_err(|e| e.to_string()))),
                }
                if out.len() < b || out[..b] != full[..b] {
                    bad.push(format!("{name} writer fault at byte {b} (transient={transient}): bytes before the fault are not the prefix of the full serialisation"));
                }
                let done = full[..b].iter().filter(|c| **c == b'\n').count();
                if pulled.get() > done + 1 {
                    bad.push(format!("{name} writer fault at byte {b} (transient={transient}): source pulled {} times although the fault is in statement {}", pulled.get(), done));
                }
            }
        }
    }
}

fn bulk(bad: &mut Vec<String>) {
    let qs = quads();
    macro_rules! ds {
        ($name:expr, $D:ty) => {{
            for k in 0..=qs.len() {
                // insert_all with a source fault at k
                let mut d = <$D>::new();
                let r = d.insert_all(QSrc { items: qs.clone(), pos: 0, fault: k, pulled: Rc::new(Cell::new(0)) });
                let n = d.quads().count();
                let by_p = d.quads_matching(Any, [iri("p")], Any, Any).count() + d.quads_matching(Any, [iri("q")], Any, Any).count();
                let exp = k.min(qs.len());
                if (k < qs.len()) != matches!(r, Err(StreamError::SourceError(_))) || n != exp || by_p != exp {
                    bad.push(format!("{} insert_all source fault at {k}: result {:?}, {n} quads ({by_p} through the predicate index), expected {exp}", $name, r.map_err(|e| e.to_string())));
                }
                // remove_all with a source fault at k, from a full store
                let mut d = <$D>::new();
                d.insert_all(QSrc { items: qs.clone(), pos: 0, fault: usize::MAX, pulled: Rc::new(Cell::new(0)) }).unwrap();
                let r = d.remove_all(QSrc { items: qs.clone(), pos: 0, fault: k, pulled: Rc::new(Cell::new(0)) });
                let left = d.quads().count();
                if (k < qs.len()) != matches!(r, Err(StreamError::SourceError(_))) || left != qs.len() - exp {
                    bad.push(format!("{} remove_all source fault at {k}: result {:?}, {left} quads left, expected {}", $name, r.map_err(|e| e.to_string()), qs.len() - exp));
                }
            }
        }};
    }
    ds!("FastDataset", FastDataset);
    ds!("LightDataset", LightDataset);
    ds!("Vec", Vec<([T; 3], Option<T>)>);
    macro_rules! gr {
        ($name:expr, $G:ty) => {{
            for k in 0..=qs.len() {
                let mut g = <$G>::new();
                let r = g.insert_all(TSrc(QSrc { items: qs.clone(), pos: 0, fault: k, pulled: Rc::new(Cell::new(0)) }));
                let exp = k.min(qs.len());
                let by_o = g.triples_matching(Any, Any, [iri("a"), iri("b"), iri("c")]).count();
                let by_p = g.triples_matching(Any, [iri("p"), iri("q")], Any).count();
                if (k < qs.len()) != matches!(r, Err(StreamError::SourceError(_))) || g.triples().count() != exp || by_o != exp || by_p != exp {
                    bad.push(format!("{} insert_all source fault at {k}: {} triples, {by_p} by predicate, {by_o} by object, expected {exp}", $name, g.triples().count()));
                }
            }
        }};
    }
    gr!("FastGraph", FastGraph);
    gr!("LightGraph", LightGraph);
}

fn rio(bad: &mut Vec<String>) {
    // one multi-triple statement, then a syntax error; the consumer fails at call j
    let doc = "@prefix : <http://example.org/> .\n:a :p :b, :c, :d ; :q :e .\n:f :p :g .\n:h :p \"unterminated\n";
    #[derive(Debug)]
    struct KErr;
    impl std::fmt::Display for KErr {
        fn fmt(&self, f: &mut std::fmt::Formatter<'_>) -> std::fmt::Result {
            write!(f, "sink")
        }
    }
    impl std::error::Error for KErr {}
    for j in 0..7 {
        let mut calls = 0usize;
        let r = turtle::parse_str(doc).try_for_each_triple(|_t| -> Result<(), KErr> {
            let c = calls;
            calls += 1;
            if c == j { Err(KErr) } else { Ok(()) }
        });
        if j < 5 {
            if !matches!(r, Err(StreamError::SinkError(_))) || calls != j + 1 {
                bad.push(format!("turtle parser, sink fault at call {j}: consumer called {calls} times, result {:?}", r.map_err(|e| e.to_string())));
            }
        } else if !matches!(r, Err(StreamError::SourceError(_))) || calls != 5 {
            bad.push(format!("turtle parser, syntax error after 5 triples: consumer called {calls} times, result {:?}", r.map_err(|e| e.to_string())));
        }
    }
}

pub fn main(_args: &[String]) -> i32 {
    let mut bad = Vec::new();
    serializers(&mut bad);
    bulk(&mut bad);
    rio(&mut bad);
    for b in &bad {
        println!("REPLAY-VIOLATION c15 {b}");
    }
    println!("c15 native fault corpus: {} deviations", bad.len());
    if bad.is_empty() { 0 } else { 1 }
}
