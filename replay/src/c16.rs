//! C16 replay: run one scenario with `n` elements on a thread with a 2 MiB stack.
//! A stack overflow kills the process (SIGSEGV/SIGABRT) — the caller reads the exit status.
use sophia_api::prelude::*;
use sophia_api::term::matcher::Any;
use sophia_api::term::{SimpleTerm, BnodeId};
use sophia_inmem::dataset::{FastDataset, LightDataset};
use sophia_inmem::graph::{FastGraph, LightGraph};
use sophia_turtle::serializer::nt::NtSerializer;

fn iri(i: usize, pfx: &str) -> SimpleTerm<'static> {
    SimpleTerm::Iri(sophia_api::term::IriRef::new_unchecked(format!("http://x/{pfx}{i}").into()))
}

/// a matcher that is not constant and rejects everything
fn reject(_t: SimpleTerm) -> bool {
    false
}

fn scenario(name: &str, n: usize) -> i32 {
    let s0 = iri(0, "s");
    let p0 = iri(0, "p");
    let g0 = iri(0, "g");
    match name {
        // graph iterators -------------------------------------------------------------
        "light_graph_spo" | "fast_graph_spo" | "light_graph_bc" | "fast_graph_bc" => {
            // n triples (s0, p0, o_i); SpoMatchingIterator via (Any, Any, reject); BcMatchingIterator via ([s0], Any, reject)
            macro_rules! go {
                ($G:ty) => {{
                    let mut g = <$G>::new();
                    for i in 0..n {
                        g.insert(&s0, &p0, iri(i, "o")).unwrap();
                    }
                    let c = if name.ends_with("spo") {
                        g.triples_matching(Any, Any, reject).count()
                    } else {
                        g.triples_matching([s0.clone()], Any, reject).count()
                    };
                    assert_eq!(c, 0);
                }};
            }
            if name.starts_with("light") { go!(LightGraph) } else { go!(FastGraph) }
            0
        }
        // dataset iterators -----------------------------------------------------------
        "light_dataset_gspo" | "fast_dataset_gspo" | "light_dataset_bcd" | "fast_dataset_bcd" | "light_dataset_cd" | "fast_dataset_cd" => {
            macro_rules! go {
                ($D:ty) => {{
                    let mut d = <$D>::new();
                    for i in 0..n {
                        d.insert(&s0, &p0, iri(i, "o"), Some(&g0)).unwrap();
                    }
                    let c = if name.ends_with("gspo") {
                        d.quads_matching(Any, Any, reject, Any).count()
                    } else if name.ends_with("bcd") {
                        d.quads_matching(Any, Any, reject, [Some(g0.clone())]).count()
                    } else {
                        d.quads_matching([s0.clone()], Any, reject, [Some(g0.clone())]).count()
                    };
                    assert_eq!(c, 0);
                }};
            }
            if name.starts_with("light") { go!(LightDataset) } else { go!(FastDataset) }
            0
        }
        // N-Triples escaper -------------------------------------------------------------
        "nt_quoted_string" => {
            let lex: String = std::iter::repeat('\n').take(n).collect();
            let lit = SimpleTerm::LiteralDatatype(lex.into(), sophia_api::ns::xsd::string.iri().unwrap().map_unchecked(Into::into));
            let g = vec![[s0.clone(), p0.clone(), lit]];
            let mut ser = NtSerializer::new_stringifier();
            ser.serialize_graph(&g).unwrap();
            let out = ser.as_str();
            assert!(out.len() >= 2 * n);
            0
        }
        _ => {
            eprintln!("unknown c16 scenario {name}");
            let _ = BnodeId::new_unchecked("x");
            2
        }
    }
}

pub fn main(args: &[String]) -> i32 {
    let name = args[0].clone();
    let n: usize = args[1].parse().unwrap();
    let h = std::thread::Builder::new()
        .stack_size(2 * 1024 * 1024)
        .spawn(move || scenario(&name, n))
        .unwrap();
    match h.join() {
        Ok(c) => c,
        Err(_) => {
            println!("REPLAY-VIOLATION c16 panic");
            1
        }
    }
}
