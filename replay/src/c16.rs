//! C16 replay: run one scenario with `n` elements on a thread with a 2 MiB stack.
//! A stack overflow kills the process (SIGSEGV/SIGABRT) — the caller reads the exit status.
//! Scenario names: "<light|fast>_<graph|dataset>_<spo|bc|gspo|bcd|cd>:<pos>" where pos in {g,s,p,o} is the position
//! that takes n distinct values and whose (non-constant) matcher rejects every row; "nt_quoted_string".
use sophia_api::prelude::*;
use sophia_api::term::matcher::Any;
use sophia_api::term::SimpleTerm;
use sophia_inmem::dataset::{FastDataset, LightDataset};
use sophia_inmem::graph::{FastGraph, LightGraph};
use sophia_turtle::serializer::nt::NtSerializer;

fn iri(i: usize, pfx: &str) -> SimpleTerm<'static> {
    SimpleTerm::Iri(sophia_api::term::IriRef::new_unchecked(format!("http://x/{pfx}{i}").into()))
}

/// a matcher that is not constant and rejects everything
fn reject(_t: SimpleTerm) -> bool {
    false
}
fn reject_g(_t: Option<SimpleTerm>) -> bool {
    false
}

fn scenario(name: &str, n: usize) -> i32 {
    if name.starts_with("nt_quoted_string") {
        // nt_quoted_string[:n|r|q|b] — which of the four escaped characters is repeated n times
        let ch = match name.split_once(':').map(|x| x.1) {
            Some("r") => '\r',
            Some("q") => '"',
            Some("b") => '\\',
            _ => '\n',
        };
        let lex: String = std::iter::repeat(ch).take(n).collect();
        let lit = SimpleTerm::LiteralDatatype(lex.into(), sophia_api::ns::xsd::string.iri().unwrap().map_unchecked(Into::into));
        let g = vec![[iri(0, "s"), iri(0, "p"), lit]];
        let mut ser = NtSerializer::new_stringifier();
        ser.serialize_graph(&g).unwrap();
        assert!(ser.as_str().len() >= 2 * n);
        return 0;
    }
    if name.starts_with("ttl_pretty_subject") {
        // n statements with one and the same subject through the pretty Turtle serializer
        use sophia_turtle::serializer::turtle::{TurtleConfig, TurtleSerializer};
        let g: Vec<[SimpleTerm<'static>; 3]> = (0..n).map(|i| [iri(0, "s"), iri(0, "p"), iri(i, "o")]).collect();
        let mut ser = TurtleSerializer::new_stringifier_with_config(TurtleConfig::new().with_pretty(true));
        ser.serialize_graph(&g).unwrap();
        assert!(ser.as_str().len() >= n);
        return 0;
    }
    let (base, pos) = match name.split_once(':') {
        Some((b, p)) => (b, p),
        None => (name, "o"),
    };
    let t = |k: &str, i: usize| if k == pos { iri(i, k) } else { iri(0, k) };
    let (s0, p0, g0) = (iri(0, "s"), iri(0, "p"), iri(0, "g"));
    let light = base.starts_with("light");
    macro_rules! graph {
        ($G:ty) => {{
            let mut g = <$G>::new();
            for i in 0..n {
                g.insert(t("s", i), t("p", i), t("o", i)).unwrap();
            }
            let c = match (base.ends_with("_bc"), pos) {
                (false, "s") => g.triples_matching(reject, Any, Any).count(),
                (false, "p") => g.triples_matching(Any, reject, Any).count(),
                (false, _) => g.triples_matching(Any, Any, reject).count(),
                (true, "p") => g.triples_matching([s0.clone()], reject, Any).count(),
                (true, _) => g.triples_matching([s0.clone()], Any, reject).count(),
            };
            assert_eq!(c, 0);
        }};
    }
    macro_rules! dataset {
        ($D:ty) => {{
            let mut d = <$D>::new();
            for i in 0..n {
                d.insert(t("s", i), t("p", i), t("o", i), Some(t("g", i))).unwrap();
            }
            let gc = [Some(g0.clone())];
            let c = if base.ends_with("_gspo") {
                match pos {
                    "g" => d.quads_matching(Any, Any, Any, reject_g).count(),
                    "s" => d.quads_matching(reject, Any, Any, Any).count(),
                    "p" => d.quads_matching(Any, reject, Any, Any).count(),
                    _ => d.quads_matching(Any, Any, reject, Any).count(),
                }
            } else if base.ends_with("_bcd") {
                match pos {
                    "s" => d.quads_matching(reject, Any, Any, gc).count(),
                    "p" => d.quads_matching(Any, reject, Any, gc).count(),
                    _ => d.quads_matching(Any, Any, reject, gc).count(),
                }
            } else {
                match pos {
                    "p" => d.quads_matching([s0.clone()], reject, Any, gc).count(),
                    _ => d.quads_matching([s0.clone()], Any, reject, gc).count(),
                }
            };
            assert_eq!(c, 0);
        }};
    }
    let _ = &p0;
    if base.contains("_graph_") {
        if light { graph!(LightGraph) } else { graph!(FastGraph) }
    } else if base.contains("_dataset_") {
        if light { dataset!(LightDataset) } else { dataset!(FastDataset) }
    } else {
        eprintln!("unknown c16 scenario {name}");
        return 2;
    }
    0
}

pub fn main(args: &[String]) -> i32 {
    let name = args[0].clone();
    let n: usize = args[1].parse().unwrap();
    let h = std::thread::Builder::new()
        .stack_size(2 * 1024 * 1024)
        .spawn(move || scenario(&name, n))
        .unwrap();
    match h.join() {
        Ok(c) => c,
        Err(_) => {
            println!("REPLAY-VIOLATION c16 panic");
            1
        }
    }
}
