#!/bin/sh
# Offline setup: nothing to build ahead of time. Every check builds its own overlay of /repo's
# current working tree (DESIGN.md 2.1). This script only verifies the tools are present.
set -e
cd "$(dirname "$0")"
for t in cargo cbmc goto-cc goto-instrument z3-new python3 rsync; do
  command -v "$t" >/dev/null || { echo "missing tool: $t"; exit 1; }
done
cargo kani --version >/dev/null
chmod +x check
mkdir -p evidence
echo "setup ok"
