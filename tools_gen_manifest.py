#!/usr/bin/env python3
"""Regenerates MANIFEST.json from the table below (keeps it valid and in one place)."""
import json, os
HERE = os.path.dirname(os.path.abspath(__file__))

BASELINE_OFF = ("cd /repo && cargo nextest run --workspace --no-fail-fast --test-threads 8 --offline "
                "|| cargo test --workspace --no-fail-fast --offline")

CHECKS = {}
NA = {}

def k(pid, text, note, technique, design_ref, level="model_checking"):
    CHECKS[pid] = {
        "property_id": pid,
        "quick_cmd": "./check %s --tier quick" % pid,
        "thorough_cmd": "./check %s --tier thorough" % pid,
        "evidence_file": "/verif/evidence/%s.json" % pid,
        "replay_cmd_template": "./check %s --replay {path}" % pid,
        "engine": "K" if level == "model_checking" else "R",
        "level_claimed": {"category": level, "text": text, "design_ref": design_ref},
        "level_note": note,
        "technique": technique,
    }

exec(open(os.path.join(HERE, "manifest_table.py")).read())

ALL = ["C%02d" % i for i in range(1, 21)]
na = [{"property_id": p, "reason": NA.get(p, "check not built yet (see DESIGN.md section 0 for the plan)")}
      for p in ALL if p not in CHECKS]
m = {
    "version": 1,
    "setup_cmd": "./setup.sh",
    "hooks": {"guard": "none", "enable": "no source hooks: harnesses are injected into a scratch overlay copy of /repo (DESIGN.md 2.1)",
              "baseline_off_cmd": BASELINE_OFF, "source_commits": [], "add_only": True},
    "engines": [
        {"name": "K", "path": "engine/kani_run.py", "serves_properties": sorted(p for p, c in CHECKS.items() if c["engine"] == "K"),
         "kind_free_text": "Kani 0.68 harnesses compiled from an overlay of /repo's working tree, decided by CBMC 6.11/cadical; counterexamples replayed natively"},
        {"name": "R", "path": "engine/rx", "serves_properties": sorted(p for p, c in CHECKS.items() if c["engine"] == "R"),
         "kind_free_text": "regexes extracted from the source, translated to SMT-LIB RegLan over a minterm alphabet, decided by z3 5.1; witnesses replayed on the real validators/parsers"},
    ],
    "checks": [CHECKS[p] for p in ALL if p in CHECKS],
    "not_applicable": na,
    "notes": "Solver-based checking of the real code; see DESIGN.md. Exit 2 = inconclusive (machinery), never a pass.",
}
json.dump(m, open(os.path.join(HERE, "MANIFEST.json"), "w"), indent=1)
print("claimed:", [c["property_id"] for c in m["checks"]], "n/a:", len(na))
