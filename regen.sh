#!/bin/sh
# Re-run every claimed check (quick tier) on the current /repo and rewrite evidence. Usage: ./regen.sh [ids...]
cd "$(dirname "$0")"
ids="$@"
[ -z "$ids" ] && ids=$(python3 -c "import json;print(' '.join(c['property_id'] for c in json.load(open('MANIFEST.json'))['checks']))")
for id in $ids; do
  ./check $id --tier quick > /tmp/regen_$id.log 2>&1
  echo "$id exit=$? $(tail -1 /tmp/regen_$id.log)"
done
