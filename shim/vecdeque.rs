//! Fixed-capacity FIFO standing in for std's VecDeque inside Kani overlays of sophia_api::source::{map,filter_map}
//! (only new / is_empty / push_back / pop_front / len are used there). Claim: "given a correct deque".
#![allow(dead_code)]
pub const QCAP: usize = 8;

pub struct VecDeque<T> {
    items: [Option<T>; QCAP],
    head: usize,
    len: usize,
}

impl<T> VecDeque<T> {
    pub fn new() -> Self {
        VecDeque { items: [None, None, None, None, None, None, None, None], head: 0, len: 0 }
    }
    pub fn is_empty(&self) -> bool {
        self.len == 0
    }
    pub fn len(&self) -> usize {
        self.len
    }
    pub fn push_back(&mut self, v: T) {
        assert!(self.len < QCAP, "deque model capacity exceeded (harness bound)");
        let i = (self.head + self.len) % QCAP;
        self.items[i] = Some(v);
        self.len += 1;
    }
    pub fn pop_front(&mut self) -> Option<T> {
        if self.len == 0 {
            return None;
        }
        let v = self.items[self.head].take();
        self.head = (self.head + 1) % QCAP;
        self.len -= 1;
        v
    }
}
impl<T> Default for VecDeque<T> {
    fn default() -> Self {
        Self::new()
    }
}
