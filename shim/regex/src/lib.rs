//! Kani-overlay stand-in for `regex` (see /verif/DESIGN.md 2.1).
//! `is_match` answers `true`: harness strings are constructed valid, and the
//! validators' languages are decided separately by engine R.
#![allow(dead_code)]

#[derive(Debug)]
pub struct Error;
impl std::fmt::Display for Error {
    fn fmt(&self, _: &mut std::fmt::Formatter<'_>) -> std::fmt::Result {
        Ok(())
    }
}
impl std::error::Error for Error {}

#[derive(Debug, Clone)]
pub struct Regex;

impl Regex {
    pub fn new(_re: &str) -> Result<Regex, Error> {
        Ok(Regex)
    }
    #[inline]
    pub fn is_match(&self, _haystack: &str) -> bool {
        true
    }
    pub fn captures<'h>(&self, _haystack: &'h str) -> Option<Captures<'h>> {
        None
    }
    pub fn as_str(&self) -> &str {
        ""
    }
}

pub struct Captures<'h>(&'h str);
impl<'h> Captures<'h> {
    pub fn get(&self, _i: usize) -> Option<Match<'h>> {
        None
    }
    pub fn name(&self, _n: &str) -> Option<Match<'h>> {
        None
    }
}
impl<'h> std::ops::Index<usize> for Captures<'h> {
    type Output = str;
    fn index(&self, _i: usize) -> &str {
        ""
    }
}
#[derive(Clone, Copy)]
pub struct Match<'h>(&'h str);
impl<'h> Match<'h> {
    pub fn as_str(&self) -> &'h str {
        self.0
    }
    pub fn start(&self) -> usize {
        0
    }
    pub fn end(&self) -> usize {
        0
    }
}

#[derive(Debug, Clone)]
pub struct RegexSet;
impl RegexSet {
    pub fn new<I, S>(_exprs: I) -> Result<RegexSet, Error>
    where
        S: AsRef<str>,
        I: IntoIterator<Item = S>,
    {
        Ok(RegexSet)
    }
    #[inline]
    pub fn is_match(&self, _haystack: &str) -> bool {
        true
    }
}
