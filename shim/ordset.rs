//! Ordered-set model standing in for std's BTreeSet inside Kani overlays of sophia_inmem
//! (DESIGN.md 2.1 item 3): a sorted fixed-capacity array with the API surface the stores use.
//! The C01/C16 claims are "sophia's index logic is correct given a correct ordered set".
#![allow(dead_code)]
use std::ops::{Bound, RangeBounds};

pub const CAP: usize = 4;

#[derive(Clone, Copy, Debug)]
pub struct BTreeSet<T> {
    items: [Option<T>; CAP],
    len: usize,
}

impl<T: Copy> Default for BTreeSet<T> {
    fn default() -> Self {
        BTreeSet { items: [None; CAP], len: 0 }
    }
}

impl<T: Ord + Copy> BTreeSet<T> {
    pub fn new() -> Self {
        BTreeSet { items: [None; CAP], len: 0 }
    }

    pub fn len(&self) -> usize {
        self.len
    }

    /// index of the first element >= v (or len)
    fn lower(&self, v: &T) -> usize {
        let mut i = 0;
        while i < CAP {
            if i >= self.len {
                return i;
            }
            match &self.items[i] {
                Some(x) if x < v => {}
                _ => return i,
            }
            i += 1;
        }
        i
    }

    pub fn contains(&self, v: &T) -> bool {
        let i = self.lower(v);
        i < self.len && matches!(&self.items[i], Some(x) if x == v)
    }

    pub fn insert(&mut self, v: T) -> bool {
        let i = self.lower(&v);
        if i < self.len && matches!(&self.items[i], Some(x) if *x == v) {
            return false;
        }
        assert!(self.len < CAP, "ordered-set model capacity exceeded (harness bound)");
        let mut j = CAP - 1;
        while j > i {
            self.items[j] = self.items[j - 1];
            j -= 1;
        }
        self.items[i] = Some(v);
        self.len += 1;
        true
    }

    pub fn remove(&mut self, v: &T) -> bool {
        let i = self.lower(v);
        if !(i < self.len && matches!(&self.items[i], Some(x) if x == v)) {
            return false;
        }
        let mut j = i;
        while j + 1 < CAP {
            self.items[j] = self.items[j + 1];
            j += 1;
        }
        self.items[CAP - 1] = None;
        self.len -= 1;
        true
    }

    pub fn iter(&self) -> Iter<'_, T> {
        Iter { items: &self.items, pos: 0, end: self.len }
    }

    pub fn range<R: RangeBounds<T>>(&self, r: R) -> Range<'_, T> {
        let mut start = 0;
        let mut end = self.len;
        let mut i = 0;
        // start = number of elements below the lower bound; end = number of elements not above the upper bound
        let mut below = 0;
        let mut upto = 0;
        while i < CAP {
            if i < self.len {
                if let Some(x) = &self.items[i] {
                    let lo_ok = match r.start_bound() {
                        Bound::Included(b) => x >= b,
                        Bound::Excluded(b) => x > b,
                        Bound::Unbounded => true,
                    };
                    let hi_ok = match r.end_bound() {
                        Bound::Included(b) => x <= b,
                        Bound::Excluded(b) => x < b,
                        Bound::Unbounded => true,
                    };
                    if !lo_ok {
                        below += 1;
                    }
                    if hi_ok {
                        upto += 1;
                    }
                }
            }
            i += 1;
        }
        start = below;
        end = if upto < below { below } else { upto };
        Iter { items: &self.items, pos: start, end }
    }
}

#[derive(Debug)]
pub struct Iter<'a, T> {
    items: &'a [Option<T>; CAP],
    pos: usize,
    end: usize,
}

impl<'a, T> Clone for Iter<'a, T> {
    fn clone(&self) -> Self {
        Iter { items: self.items, pos: self.pos, end: self.end }
    }
}

impl<'a, T> Iterator for Iter<'a, T> {
    type Item = &'a T;
    fn next(&mut self) -> Option<&'a T> {
        if self.pos >= self.end || self.pos >= CAP {
            return None;
        }
        let r = self.items[self.pos].as_ref();
        self.pos += 1;
        r
    }
}

pub type Range<'a, T> = Iter<'a, T>;
