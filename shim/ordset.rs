//! Ordered-set model standing in for std's BTreeSet inside Kani overlays of sophia_inmem
//! (DESIGN.md 2.1 item 3): a sorted fixed-capacity array of index tuples with the API surface the
//! stores use (new/insert/remove/contains/iter/range, clonable iterators).
//! The C01/C16 claims are "sophia's index logic is correct given a correct ordered set".
#![allow(dead_code)]
use std::ops::{Bound, RangeBounds};

/// capacity; the overlay builder substitutes the value per harness family (default 4)
pub const CAP: usize = 4;

#[derive(Clone, Copy, Debug)]
pub struct BTreeSet<T> {
    items: [Option<T>; CAP],
    len: usize,
}

impl<T: Copy> Default for BTreeSet<T> {
    fn default() -> Self {
        BTreeSet { items: [None; CAP], len: 0 }
    }
}

/// lexicographic comparison of index tuples, written as an explicit loop (the derived array Ord goes
/// through slice comparison / memcmp specialisations that are needlessly expensive for CBMC)
#[inline]
fn cmp<I: Ord + Copy, const N: usize>(a: &[I; N], b: &[I; N]) -> std::cmp::Ordering {
    let mut k = 0;
    while k < N {
        if a[k] < b[k] {
            return std::cmp::Ordering::Less;
        }
        if a[k] > b[k] {
            return std::cmp::Ordering::Greater;
        }
        k += 1;
    }
    std::cmp::Ordering::Equal
}

impl<I: Ord + Copy, const N: usize> BTreeSet<[I; N]> {
    pub fn new() -> Self {
        BTreeSet { items: [None; CAP], len: 0 }
    }

    pub fn len(&self) -> usize {
        self.len
    }

    /// index of the first element >= v (or len)
    fn lower(&self, v: &[I; N]) -> usize {
        let mut i = 0;
        while i < CAP {
            if i >= self.len {
                return i;
            }
            match &self.items[i] {
                Some(x) if cmp(x, v) == std::cmp::Ordering::Less => {}
                _ => return i,
            }
            i += 1;
        }
        i
    }

    fn at_eq(&self, i: usize, v: &[I; N]) -> bool {
        i < self.len && i < CAP && matches!(&self.items[i], Some(x) if cmp(x, v) == std::cmp::Ordering::Equal)
    }

    pub fn contains(&self, v: &[I; N]) -> bool {
        let i = self.lower(v);
        self.at_eq(i, v)
    }

    pub fn insert(&mut self, v: [I; N]) -> bool {
        let i = self.lower(&v);
        if self.at_eq(i, &v) {
            return false;
        }
        assert!(self.len < CAP, "ordered-set model capacity exceeded (harness bound)");
        let mut j = CAP - 1;
        while j > i {
            self.items[j] = self.items[j - 1];
            j -= 1;
        }
        self.items[i] = Some(v);
        self.len += 1;
        true
    }

    pub fn remove(&mut self, v: &[I; N]) -> bool {
        let i = self.lower(v);
        if !self.at_eq(i, v) {
            return false;
        }
        let mut j = i;
        while j + 1 < CAP {
            self.items[j] = self.items[j + 1];
            j += 1;
        }
        self.items[CAP - 1] = None;
        self.len -= 1;
        true
    }

    pub fn is_empty(&self) -> bool {
        self.len == 0
    }

    pub fn clear(&mut self) {
        self.items = [None; CAP];
        self.len = 0;
    }

    pub fn first(&self) -> Option<&[I; N]> {
        if self.len == 0 { None } else { self.items[0].as_ref() }
    }

    pub fn last(&self) -> Option<&[I; N]> {
        if self.len == 0 || self.len > CAP { None } else { self.items[self.len - 1].as_ref() }
    }

    pub fn iter(&self) -> Iter<'_, [I; N]> {
        Iter { items: &self.items, pos: 0, end: self.len }
    }

    pub fn range<R: RangeBounds<[I; N]>>(&self, r: R) -> Range<'_, [I; N]> {
        // below = number of elements under the lower bound; upto = number of elements not above the upper bound
        let mut below = 0;
        let mut upto = 0;
        let mut i = 0;
        while i < CAP {
            if i < self.len {
                if let Some(x) = &self.items[i] {
                    let lo_ok = match r.start_bound() {
                        Bound::Included(b) => cmp(x, b) != std::cmp::Ordering::Less,
                        Bound::Excluded(b) => cmp(x, b) == std::cmp::Ordering::Greater,
                        Bound::Unbounded => true,
                    };
                    let hi_ok = match r.end_bound() {
                        Bound::Included(b) => cmp(x, b) != std::cmp::Ordering::Greater,
                        Bound::Excluded(b) => cmp(x, b) == std::cmp::Ordering::Less,
                        Bound::Unbounded => true,
                    };
                    if !lo_ok {
                        below += 1;
                    }
                    if hi_ok {
                        upto += 1;
                    }
                }
            }
            i += 1;
        }
        let end = if upto < below { below } else { upto };
        Iter { items: &self.items, pos: below, end }
    }
}

#[derive(Debug)]
pub struct Iter<'a, T> {
    items: &'a [Option<T>; CAP],
    pos: usize,
    end: usize,
}

impl<'a, T> Clone for Iter<'a, T> {
    fn clone(&self) -> Self {
        Iter { items: self.items, pos: self.pos, end: self.end }
    }
}

impl<'a, T> Iterator for Iter<'a, T> {
    type Item = &'a T;
    fn next(&mut self) -> Option<&'a T> {
        if self.pos >= self.end || self.pos >= CAP {
            return None;
        }
        let r = self.items[self.pos].as_ref();
        self.pos += 1;
        r
    }
}

pub type Range<'a, T> = Iter<'a, T>;

impl<I: Ord + Copy, const N: usize> Extend<[I; N]> for BTreeSet<[I; N]> {
    fn extend<It: IntoIterator<Item = [I; N]>>(&mut self, iter: It) {
        for x in iter {
            self.insert(x);
        }
    }
}
impl<I: Ord + Copy, const N: usize> FromIterator<[I; N]> for BTreeSet<[I; N]> {
    fn from_iter<It: IntoIterator<Item = [I; N]>>(iter: It) -> Self {
        let mut s = BTreeSet::new();
        s.extend(iter);
        s
    }
}
impl<'a, I: Ord + Copy, const N: usize> IntoIterator for &'a BTreeSet<[I; N]> {
    type Item = &'a [I; N];
    type IntoIter = Iter<'a, [I; N]>;
    fn into_iter(self) -> Self::IntoIter {
        self.iter()
    }
}
