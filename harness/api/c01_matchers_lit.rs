// C01 — the matcher kinds that need literals and quoted triples (datatype, language tag, (S,P,O) tuples, TermKind over
// all six kinds, closures) against reference predicates written on the encoding of the lean all-kinds term T2.
use super::c02_terms::*;
use crate::term::matcher::{Any, DatatypeMatcher, LanguageTagMatcher, Not, TermMatcher};
use crate::term::{IriRef, LanguageTag, SimpleTerm, Term, TermKind};

static M_DT: &str = "xyz"; // T2 literals have datatype "x" or "y"; "z" is never a datatype
static M_LANGSTRING: &str = "http://www.w3.org/1999/02/22-rdf-syntax-ns#langString";
static M_TAGS: &str = "enENfrFRde"; // T2 tags: codes 0,1,2 = en/EN/eN, 3 = fr; "de" never occurs

#[inline]
fn msub(s: &'static str, i: usize, n: usize) -> &'static str {
    unsafe { std::str::from_utf8_unchecked(std::slice::from_raw_parts(s.as_ptr().add(i), n)) }
}

#[cfg(kani)]
fn any_atom() -> T2 {
    let k: u8 = kani::any();
    kani::assume(k < K_TRIPLE);
    any_of_kind(k)
}
#[cfg(kani)]
fn any_node() -> T2 {
    // blank node or IRI, the component alphabet of T2's quoted triples
    let k: u8 = kani::any();
    kani::assume(k <= K_IRI);
    let v: u8 = kani::any();
    kani::assume(v < 4);
    T2 { k, v, sub: [0; 3] }
}

#[cfg(kani)]
#[kani::proof]
#[kani::unwind(8)]
pub fn c01_datatype_matcher() {
    let x = any_atom();
    let d: u8 = kani::any();
    kani::assume(d < 4);
    let iri = if d < 3 { IriRef::new_unchecked_const(msub(M_DT, d as usize, 1)) } else { IriRef::new_unchecked_const(M_LANGSTRING) };
    let expected = match x.k {
        K_LIT => d < 2 && ((x.v >> 1) & 1) == d,
        K_TAG => d == 3,
        _ => false,
    };
    let m1 = DatatypeMatcher::new(iri);
    let m2 = Any * iri;
    assert!(m1.matches(&x) == expected, "DatatypeMatcher differs from 'literal with exactly that datatype'");
    assert!(m2.matches(&x) == expected, "Any * datatype differs from 'literal with exactly that datatype'");
    assert!(m1.constant().is_none() && m2.constant().is_none(), "a datatype matcher has no constant");
    assert!(Not(m1).matches(&x) == !expected);
    kani::cover!(expected && x.k == K_LIT, "typed literal matched");
    kani::cover!(expected && x.k == K_TAG, "tagged literal matched by rdf:langString");
    kani::cover!(!expected && x.k == K_LIT, "typed literal rejected");
}

#[cfg(kani)]
#[kani::proof]
#[kani::unwind(8)]
pub fn c01_language_tag_matcher() {
    let x = any_atom();
    let t: u8 = kani::any();
    kani::assume(t < 5);
    let tag = LanguageTag::new_unchecked_const(msub(M_TAGS, 2 * t as usize, 2));
    // en, EN -> the three case variants of "en"; fr, FR -> "fr"; de -> nothing
    let expected = x.k == K_TAG
        && match t {
            0 | 1 => ((x.v >> 1) & 3) < 3,
            2 | 3 => ((x.v >> 1) & 3) == 3,
            _ => false,
        };
    let m1 = LanguageTagMatcher::new(tag);
    let m2 = Any * tag;
    assert!(m1.matches(&x) == expected, "LanguageTagMatcher differs from 'literal with that tag, ASCII case ignored'");
    assert!(m2.matches(&x) == expected);
    assert!(m1.constant().is_none(), "a language-tag matcher has no constant");
    kani::cover!(expected && t == 1 && ((x.v >> 1) & 3) == 0, "tag differing in case matched");
    kani::cover!(!expected && x.k == K_TAG, "tagged literal rejected");
}

#[cfg(kani)]
#[kani::proof]
#[kani::unwind(8)]
pub fn c01_kind_matcher_all_kinds() {
    let k: u8 = kani::any();
    kani::assume(k <= K_TRIPLE);
    let x = any_of_kind(k);
    assert!(TermKind::BlankNode.matches(&x) == (k == K_BN));
    assert!(TermKind::Iri.matches(&x) == (k == K_IRI));
    assert!(TermKind::Literal.matches(&x) == (k == K_LIT || k == K_TAG));
    assert!(TermKind::Variable.matches(&x) == (k == K_VAR));
    assert!(TermKind::Triple.matches(&x) == (k == K_TRIPLE));
    assert!(Not(TermKind::Literal).matches(&x) == !(k == K_LIT || k == K_TAG));
}

#[cfg(kani)]
#[kani::proof]
#[kani::unwind(8)]
pub fn c01_triple_matcher() {
    let k: u8 = kani::any();
    kani::assume(k == K_TRIPLE || k == K_IRI || k == K_LIT);
    let x = any_of_kind(k);
    let (a, b) = (any_node(), any_node());
    let (xs, xo) = (atom(x.sub[0]), atom(x.sub[2]));
    let is_t = k == K_TRIPLE;
    let m1 = (Some(a), Any, Some(b));
    assert!(m1.matches(&x) == (is_t && same(xs, a) && same(xo, b)), "(Some(a), Any, Some(b)) differs from the component-wise predicate");
    assert!(m1.constant().is_none(), "a tuple matcher has no constant");
    kani::cover!(is_t && same(xs, a) && same(xo, b), "matched");
    kani::cover!(is_t && same(xs, a) && !same(xo, b), "rejected on the object only");
}

#[cfg(kani)]
#[kani::proof]
#[kani::unwind(8)]
pub fn c01_triple_matcher_kinds() {
    let k: u8 = kani::any();
    kani::assume(k <= K_TRIPLE);
    let x = any_of_kind(k);
    let (xs, xp) = (atom(x.sub[0]), atom(x.sub[1]));
    let is_t = k == K_TRIPLE;
    // kind matchers on the components, all-Any, and an empty component
    assert!((TermKind::Iri, TermKind::BlankNode, Any).matches(&x) == (is_t && xs.k == K_IRI && xp.k == K_BN), "(kind, kind, Any) differs from the component-wise predicate");
    assert!((Any, Any, Any).matches(&x) == is_t);
    let none: Option<T2> = None;
    assert!(!(Any, none, Any).matches(&x));
    kani::cover!(is_t && xs.k == K_IRI && xp.k == K_BN, "matched");
}
