// C11 — graph/dataset views stay coherent with the underlying store.
// The views (UnionGraph, PartialUnionGraph, DatasetGraph, GraphAsDataset) and the default
// Dataset::quads_matching / Graph::triples_matching they sit on are generic code; they are driven over an
// array-backed dataset/graph that implements only the REQUIRED trait methods.
use super::vt::*;
use crate::dataset::{Dataset, MutableDataset};
use crate::graph::{Graph, MutableGraph};
use crate::quad::Quad;
use crate::term::matcher::{Any, GraphNameMatcher, Not, TermMatcher};
use crate::term::{Term, TermKind};
use crate::triple::Triple;
use std::convert::Infallible;

pub const NQ: usize = 3;

#[derive(Clone, Copy, PartialEq, Eq, Debug)]
pub struct Qd {
    pub s: u8,
    pub p: u8,
    pub o: u8,
    pub g: u8, // 0 = default graph, 1 = VT(3), 2 = VT(6) (a blank node name); VT(4) is never in the store
}
pub fn gname(g: u8) -> Option<VT> {
    match g {
        0 => None,
        1 => Some(VT(3)),
        2 => Some(VT(6)),
        _ => Some(VT(4)), // a graph name absent from the store
    }
}
pub fn gidx(g: Option<VT>) -> u8 {
    match g {
        None => 0,
        Some(t) => match t.0 % NCODES {
            3 => 1,
            6 => 2,
            _ => 3,
        },
    }
}
pub fn tv<T: Term>(t: T) -> u8 {
    code_of(t).unwrap_or(99)
}

/// explicit iterators over the slots (no closures: kani-compiler 0.68 crashes on some closure patterns)
pub struct SlotIterQ<'a> {
    slots: &'a [Option<Qd>; NQ],
    pos: usize,
}
impl<'a> Iterator for SlotIterQ<'a> {
    type Item = Result<([VT; 3], Option<VT>), Infallible>;
    fn next(&mut self) -> Option<Self::Item> {
        while self.pos < NQ {
            let i = self.pos;
            self.pos += 1;
            if let Some(q) = self.slots[i] {
                return Some(Ok(([VT(q.s), VT(q.p), VT(q.o)], gname(q.g))));
            }
        }
        None
    }
}
pub struct SlotIterT<'a> {
    slots: &'a [Option<Qd>; NQ],
    pos: usize,
}
impl<'a> Iterator for SlotIterT<'a> {
    type Item = Result<[VT; 3], Infallible>;
    fn next(&mut self) -> Option<Self::Item> {
        while self.pos < NQ {
            let i = self.pos;
            self.pos += 1;
            if let Some(q) = self.slots[i] {
                return Some(Ok([VT(q.s), VT(q.p), VT(q.o)]));
            }
        }
        None
    }
}
/// quads -> their triples
pub struct Q2T<I>(pub I);
impl<I: Iterator<Item = Result<([VT; 3], Option<VT>), Infallible>>> Iterator for Q2T<I> {
    type Item = Result<[VT; 3], Infallible>;
    fn next(&mut self) -> Option<Self::Item> {
        match self.0.next() {
            None => None,
            Some(Ok(q)) => Some(Ok(q.0)),
            Some(Err(e)) => Some(Err(e)),
        }
    }
}

#[derive(Clone, Copy, Debug)]
pub struct ArrDs {
    pub q: [Option<Qd>; NQ],
}
impl ArrDs {
    pub fn find(&self, x: Qd) -> Option<usize> {
        let mut i = 0;
        while i < NQ {
            if self.q[i] == Some(x) {
                return Some(i);
            }
            i += 1;
        }
        None
    }
}
impl Dataset for ArrDs {
    type Quad<'x> = ([VT; 3], Option<VT>);
    type Error = Infallible;
    fn quads(&self) -> impl Iterator<Item = Result<Self::Quad<'_>, Infallible>> + '_ {
        SlotIterQ { slots: &self.q, pos: 0 }
    }
}
impl MutableDataset for ArrDs {
    type MutationError = Infallible;
    fn insert<TS: Term, TP: Term, TO: Term, TG: Term>(&mut self, s: TS, p: TP, o: TO, g: Option<TG>) -> Result<bool, Infallible> {
        let x = Qd { s: tv(s), p: tv(p), o: tv(o), g: gidx(g.map(|t| VT(tv(t)))) };
        if self.find(x).is_some() {
            return Ok(false);
        }
        let mut i = 0;
        while i < NQ {
            if self.q[i].is_none() {
                self.q[i] = Some(x);
                return Ok(true);
            }
            i += 1;
        }
        panic!("harness bound: array dataset full");
    }
    fn remove<TS: Term, TP: Term, TO: Term, TG: Term>(&mut self, s: TS, p: TP, o: TO, g: Option<TG>) -> Result<bool, Infallible> {
        let x = Qd { s: tv(s), p: tv(p), o: tv(o), g: gidx(g.map(|t| VT(tv(t)))) };
        match self.find(x) {
            Some(i) => {
                self.q[i] = None;
                Ok(true)
            }
            None => Ok(false),
        }
    }
}

#[derive(Clone, Copy, Debug)]
pub struct ArrG {
    pub t: [Option<Qd>; NQ], // g is always 0
}
impl ArrG {
    pub fn find(&self, x: Qd) -> Option<usize> {
        let mut i = 0;
        while i < NQ {
            if self.t[i] == Some(x) {
                return Some(i);
            }
            i += 1;
        }
        None
    }
}
impl Graph for ArrG {
    type Triple<'x> = [VT; 3];
    type Error = Infallible;
    fn triples(&self) -> impl Iterator<Item = Result<[VT; 3], Infallible>> + '_ {
        SlotIterT { slots: &self.t, pos: 0 }
    }
}
impl MutableGraph for ArrG {
    type MutationError = Infallible;
    fn insert<TS: Term, TP: Term, TO: Term>(&mut self, s: TS, p: TP, o: TO) -> Result<bool, Infallible> {
        let x = Qd { s: tv(s), p: tv(p), o: tv(o), g: 0 };
        if self.find(x).is_some() {
            return Ok(false);
        }
        let mut i = 0;
        while i < NQ {
            if self.t[i].is_none() {
                self.t[i] = Some(x);
                return Ok(true);
            }
            i += 1;
        }
        panic!("harness bound: array graph full");
    }
    fn remove<TS: Term, TP: Term, TO: Term>(&mut self, s: TS, p: TP, o: TO) -> Result<bool, Infallible> {
        let x = Qd { s: tv(s), p: tv(p), o: tv(o), g: 0 };
        match self.find(x) {
            Some(i) => {
                self.t[i] = None;
                Ok(true)
            }
            None => Ok(false),
        }
    }
}

// symbolic content: each slot empty or a quad over terms {0,1,2} and graph selectors {0,1,2}; no duplicates
#[cfg(kani)]
pub fn any_qd(graph_only: bool) -> Qd {
    let x = Qd { s: kani::any(), p: kani::any(), o: kani::any(), g: if graph_only { 0 } else { kani::any() } };
    kani::assume(x.s < 3 && x.p < 3 && x.o < 3 && x.g < 3);
    x
}
#[cfg(kani)]
pub fn any_slots(graph_only: bool) -> [Option<Qd>; NQ] {
    let mut q = [None; NQ];
    let mut i = 0;
    while i < NQ {
        if kani::any() {
            let x = any_qd(graph_only);
            let mut j = 0;
            while j < i {
                kani::assume(q[j] != Some(x));
                j += 1;
            }
            q[i] = Some(x);
        }
        i += 1;
    }
    q
}

/// Step a view's iterator; every row must be the projection of a distinct selected store quad; the number of
/// rows must be the number of selected quads (one triple per quad).
pub fn check_view<I, X, FS>(mut it: I, store: &[Option<Qd>; NQ], selected: FS)
where
    I: Iterator<Item = Result<X, Infallible>>,
    X: Triple,
    FS: Fn(Qd) -> bool,
{
    let mut used = [false; NQ];
    let mut n = 0;
    let mut k = 0;
    let mut exhausted = false;
    while k < NQ + 1 {
        match it.next() {
            None => {
                exhausted = true;
                break;
            }
            Some(Err(_)) => unreachable!(),
            Some(Ok(t)) => {
                let (s, p, o) = (tv(t.s()), tv(t.p()), tv(t.o()));
                // match it with a not yet used selected store quad having this projection
                let mut hit = false;
                let mut j = 0;
                while j < NQ {
                    if !hit && !used[j] {
                        if let Some(q) = store[j] {
                            if q.s == s && q.p == p && q.o == o && selected(q) {
                                used[j] = true;
                                hit = true;
                            }
                        }
                    }
                    j += 1;
                }
                assert!(hit, "view shows a triple that is not (or no longer) backed by a selected quad of the store");
                n += 1;
            }
        }
        k += 1;
    }
    assert!(exhausted, "view shows more triples than the store has quads");
    let mut expected = 0;
    let mut j = 0;
    while j < NQ {
        if let Some(q) = store[j] {
            if selected(q) {
                expected += 1;
            }
        }
        j += 1;
    }
    #[cfg(kani)]
    {
        kani::cover!(expected >= 2, "at least two quads selected");
        kani::cover!(expected == 0 && n == 0, "nothing selected");
    }
    assert!(n == expected, "view hides a triple of a selected quad");
    std::mem::forget(it);
}

#[cfg(kani)]
fn any_sel() -> (bool, u8) {
    // optional constant on one position
    let bound: bool = kani::any();
    let v: u8 = kani::any();
    kani::assume(v < 3);
    (bound, v)
}

#[cfg(kani)]
#[kani::proof]
#[kani::unwind(6)]
pub fn c11_dataset_graph_view() {
    let d = ArrDs { q: any_slots(false) };
    let g: u8 = kani::any();
    kani::assume(g < 4); // 3 = a graph name absent from the store
    let (sb, sv) = any_sel();
    let view = d.graph(gname(g));
    if sb {
        check_view(view.triples_matching([VT(sv)], Any, Any), &d.q, |q| q.g == g && q.s == sv);
    } else {
        check_view(view.triples_matching(Any, Any, Any), &d.q, |q| q.g == g);
    }
}

#[cfg(kani)]
#[kani::proof]
#[kani::unwind(6)]
pub fn c11_dataset_graph_triples() {
    let d = ArrDs { q: any_slots(false) };
    let g: u8 = kani::any();
    kani::assume(g < 4);
    let view = d.graph(gname(g));
    check_view(view.triples(), &d.q, |q| q.g == g);
}

#[cfg(kani)]
#[kani::proof]
#[kani::unwind(6)]
pub fn c11_union_graph_view() {
    let d = ArrDs { q: any_slots(false) };
    let (ob, ov) = any_sel();
    let view = d.union_graph();
    if ob {
        check_view(view.triples_matching(Any, Any, Some(VT(ov))), &d.q, |q| q.o == ov);
    } else {
        check_view(view.triples(), &d.q, |_q| true);
    }
}

#[cfg(kani)]
#[kani::proof]
#[kani::unwind(6)]
pub fn c11_partial_union_view() {
    let d = ArrDs { q: any_slots(false) };
    let g1: u8 = kani::any();
    let g2: u8 = kani::any();
    kani::assume(g1 < 4 && g2 < 4);
    let (pb, pv) = any_sel();
    let view = d.partial_union_graph([gname(g1), gname(g2)]);
    if pb {
        check_view(view.triples_matching(Any, [VT(pv)], Any), &d.q, |q| (q.g == g1 || q.g == g2) && q.p == pv);
    } else {
        check_view(view.triples(), &d.q, |q| q.g == g1 || q.g == g2);
    }
}

#[cfg(kani)]
#[kani::proof]
#[kani::unwind(6)]
pub fn c11_partial_union_not_view() {
    let d = ArrDs { q: any_slots(false) };
    let g1: u8 = kani::any();
    kani::assume(g1 < 4);
    // selector with a TermKind-based graph matcher: Some(Iri) = named graphs with an IRI name, None = default graph
    let named: bool = kani::any();
    let view = d.partial_union_graph(if named { Some(TermKind::Iri) } else { None });
    check_view(view.triples_matching(Any, Any, Any), &d.q, |q| if named { q.g == 1 } else { q.g == 0 });
    let _ = g1;
}

// graph seen as a dataset: answers only for the default graph (one harness per graph-name matcher kind)
macro_rules! gad_harness {
    ($name:ident, $gq:ident, $gm:expr, $default_selected:expr) => {
        #[cfg(kani)]
        #[kani::proof]
        #[kani::unwind(6)]
        pub fn $name() {
            let g = ArrG { t: any_slots(true) };
            let view = g.as_dataset();
            let $gq: u8 = kani::any();
            kani::assume($gq < 4);
            let (sb, sv) = any_sel();
            let dsel: bool = $default_selected;
            if sb {
                check_view(Q2T(view.quads_matching([VT(sv)], Any, Any, $gm)), &g.t, |q| dsel && q.s == sv);
            } else {
                check_view(Q2T(view.quads_matching(Any, Any, Any, $gm)), &g.t, |_q| dsel);
            }
        }
    };
}
gad_harness!(c11_gad_any, gq, Any, true);
gad_harness!(c11_gad_const, gq, [gname(gq)], gq == 0);
gad_harness!(c11_gad_opt, gq, Some(gname(gq)), gq == 0);
gad_harness!(c11_gad_two, gq, [gname(gq), Some(VT(4))], gq == 0);
gad_harness!(c11_gad_not, gq, Not([gname(gq)]), gq != 0);
gad_harness!(c11_gad_kind, gq, Some(TermKind::Iri), false);

// mutation through the one-graph view == the same mutation on the store with that graph name
#[cfg(kani)]
#[kani::proof]
#[kani::unwind(6)]
pub fn c11_mutate_dataset_graph() {
    let mut slots = any_slots(false);
    slots[NQ - 1] = None; // room for one insertion
    let mut d1 = ArrDs { q: slots };
    let mut d2 = d1;
    let g: u8 = kani::any();
    kani::assume(g < 3);
    let x = any_qd(true);
    let ins: bool = kani::any();
    let (r1, r2) = if ins {
        (d1.graph_mut(gname(g)).insert(VT(x.s), VT(x.p), VT(x.o)), d2.insert(VT(x.s), VT(x.p), VT(x.o), gname(g)))
    } else {
        (d1.graph_mut(gname(g)).remove(VT(x.s), VT(x.p), VT(x.o)), d2.remove(VT(x.s), VT(x.p), VT(x.o), gname(g)))
    };
    kani::cover!(r2.ok() == Some(true) && ins, "effective insertion");
    kani::cover!(r2.ok() == Some(true) && !ins, "effective removal");
    assert!(r1.ok() == r2.ok(), "mutation through the view returns another flag than the direct mutation");
    let mut i = 0;
    while i < NQ {
        assert!(d1.q[i] == d2.q[i], "mutation through the view changed the store differently from the direct mutation");
        i += 1;
    }
}

// mutation through graph-as-dataset: default graph = the graph's own mutation; named graph = error / false, no change
#[cfg(kani)]
#[kani::proof]
#[kani::unwind(6)]
pub fn c11_mutate_graph_as_dataset() {
    let mut slots = any_slots(true);
    slots[NQ - 1] = None;
    let mut g1 = ArrG { t: slots };
    let mut g2 = g1;
    let gq: u8 = kani::any();
    kani::assume(gq < 3);
    let x = any_qd(true);
    let ins: bool = kani::any();
    if ins {
        let r1 = g1.as_dataset_mut().insert(VT(x.s), VT(x.p), VT(x.o), gname(gq));
        if gq == 0 {
            let r2 = g2.insert(VT(x.s), VT(x.p), VT(x.o));
            assert!(r1.is_ok() && r1.ok() == r2.ok(), "insert through graph-as-dataset differs from the graph's insert");
        } else {
            assert!(r1.is_err(), "inserting into a named graph of a graph-as-dataset must fail");
        }
    } else {
        let r1 = g1.as_dataset_mut().remove(VT(x.s), VT(x.p), VT(x.o), gname(gq));
        if gq == 0 {
            let r2 = g2.remove(VT(x.s), VT(x.p), VT(x.o));
            kani::cover!(r2.ok() == Some(true), "effective removal through the view");
            assert!(r1.is_ok() && r1.ok() == r2.ok(), "remove through graph-as-dataset returns another flag than the graph's remove");
        } else {
            assert!(matches!(r1, Ok(false)), "removing from a named graph of a graph-as-dataset must answer false");
        }
    }
    let mut i = 0;
    while i < NQ {
        assert!(g1.t[i] == g2.t[i], "mutation through graph-as-dataset changed the graph differently from the direct mutation");
        i += 1;
    }
}

// NB: remove_matching / retain_matching through a view are NOT covered: the default methods collect the matches
// into a Vec<[SimpleTerm; 3]> (heap strings, SimpleTerm::from_term); two harness formulations (3 and 2 quads)
// did not finish in 15 and 40 minutes. Stated as outside the claim in DESIGN.md.

// bulk insertion/removal THROUGH graph-as-dataset (insert_all / remove_all of a quad stream): quads of the default
// graph behave like the graph's own insert/remove; a named-graph quad makes insert_all fail there (nothing of it is
// added) and is ignored by remove_all.
pub struct QSrc {
    pub items: [Qd; 2],
    pub pos: usize,
}
impl Iterator for QSrc {
    type Item = Result<([VT; 3], Option<VT>), Infallible>;
    fn next(&mut self) -> Option<Self::Item> {
        if self.pos >= 2 {
            return None;
        }
        let q = self.items[self.pos];
        self.pos += 1;
        Some(Ok(([VT(q.s), VT(q.p), VT(q.o)], gname(q.g))))
    }
}

#[cfg(kani)]
#[kani::proof]
#[kani::unwind(6)]
pub fn c11_gad_bulk() {
    let mut slots = any_slots(true);
    slots[NQ - 1] = None;
    slots[NQ - 2] = None; // room for two insertions
    let mut g1 = ArrG { t: slots };
    let mut g2 = g1;
    let items = [any_qd(false), any_qd(false)];
    let ins: bool = kani::any();
    if ins {
        let r = g1.as_dataset_mut().insert_all(QSrc { items, pos: 0 });
        // reference: items in order; a named-graph quad stops the stream with a sink error
        let mut count = 0;
        let mut failed = false;
        let mut i = 0;
        while i < 2 {
            if !failed {
                if items[i].g != 0 {
                    failed = true;
                } else if g2.insert(VT(items[i].s), VT(items[i].p), VT(items[i].o)).ok() == Some(true) {
                    count += 1;
                }
            }
            i += 1;
        }
        kani::cover!(failed && count == 1, "named-graph quad after an effective insertion");
        match r {
            Ok(n) => assert!(!failed && n == count, "insert_all through graph-as-dataset: wrong count, or a named-graph quad was accepted"),
            Err(e) => {
                assert!(failed && e.is_sink_error(), "insert_all through graph-as-dataset failed although every quad was in the default graph");
                std::mem::forget(e);
            }
        }
    } else {
        let r = g1.as_dataset_mut().remove_all(QSrc { items, pos: 0 });
        let mut count = 0;
        let mut i = 0;
        while i < 2 {
            if items[i].g == 0 && g2.remove(VT(items[i].s), VT(items[i].p), VT(items[i].o)).ok() == Some(true) {
                count += 1;
            }
            i += 1;
        }
        kani::cover!(count == 1 && (items[0].g != 0 || items[1].g != 0), "a named-graph quad next to an effective removal");
        match r {
            Ok(n) => assert!(n == count, "remove_all through graph-as-dataset removed a triple for a named-graph quad, or miscounted"),
            Err(e) => {
                assert!(false, "remove_all through graph-as-dataset failed");
                std::mem::forget(e);
            }
        }
    }
    let mut i = 0;
    while i < NQ {
        assert!(g1.t[i] == g2.t[i], "bulk mutation through graph-as-dataset left the graph in another state than the per-quad semantics");
        i += 1;
    }
}

// contains() through the views
#[cfg(kani)]
#[kani::proof]
#[kani::unwind(6)]
pub fn c11_contains() {
    let g = ArrG { t: any_slots(true) };
    let x = any_qd(false);
    let in_graph = g.find(Qd { g: 0, ..x }).is_some();
    let r = g.as_dataset().contains(VT(x.s), VT(x.p), VT(x.o), gname(x.g));
    assert!(r.ok() == Some(in_graph && x.g == 0), "graph-as-dataset: contains() must be true exactly for triples of the graph asked for in the default graph");
    let d = ArrDs { q: any_slots(false) };
    let y = any_qd(false);
    let r2 = d.contains(VT(y.s), VT(y.p), VT(y.o), gname(y.g));
    assert!(r2.ok() == Some(d.find(y).is_some()), "Dataset::contains (default method) differs from membership");
    let sel: u8 = kani::any();
    kani::assume(sel < 4);
    let r3 = d.graph(gname(sel)).contains(VT(y.s), VT(y.p), VT(y.o));
    assert!(r3.ok() == Some(d.find(Qd { g: sel, ..y }).is_some()), "one-graph view: contains() differs from membership of the quad with that graph name");
    kani::cover!(in_graph && x.g == 0, "contained");
    kani::cover!(in_graph && x.g != 0, "triple present but asked in a named graph");
}
