// C15 — streams deliver exactly the prefix before a failure and blame the right side.
// Engine K harnesses over the real api/src/source*.rs code (injected in-crate).
//
// Symbolic: item payloads, number of items n <= N, source-fault index, sink-fault
// call index, both error payloads, filter threshold, driving mode.
// Oracle: the 15-line reference loop `reference()` below.

use crate::source::*;
use std::error::Error;
use std::fmt;

pub const N: usize = 4;

#[derive(Debug, Clone, Copy, PartialEq, Eq)]
pub struct SrcErr(pub u8);
impl fmt::Display for SrcErr {
    fn fmt(&self, _: &mut fmt::Formatter<'_>) -> fmt::Result {
        Ok(())
    }
}
impl Error for SrcErr {}

#[derive(Debug, Clone, Copy, PartialEq, Eq)]
pub struct SnkErr(pub u8);
impl fmt::Display for SnkErr {
    fn fmt(&self, _: &mut fmt::Formatter<'_>) -> fmt::Result {
        Ok(())
    }
}
impl Error for SnkErr {}

/// Iterator source: yields items[0..n], except that position `fault` (if < n)
/// yields Err(SrcErr(code)). It keeps going after the fault, so a driver that
/// does not stop would be seen consuming later items.
pub struct ArrIter {
    pub items: [u8; N],
    pub n: usize,
    pub pos: usize,
    pub fault: usize,
    pub code: u8,
}
impl Iterator for ArrIter {
    type Item = Result<u8, SrcErr>;
    fn next(&mut self) -> Option<Self::Item> {
        if self.pos >= self.n {
            return None;
        }
        let i = self.pos;
        self.pos += 1;
        if i == self.fault {
            Some(Err(SrcErr(self.code)))
        } else {
            Some(Ok(self.items[i]))
        }
    }
}

/// Recording sink: remembers every item it was called with (including the one
/// on which it fails); fails on call number `fail_at`.
pub struct Rec {
    pub seen: [u8; N + 1],
    pub calls: usize,
    pub fail_at: usize,
    pub code: u8,
    pub overflow: bool,
}
impl Rec {
    pub fn new(fail_at: usize, code: u8) -> Self {
        Rec { seen: [0; N + 1], calls: 0, fail_at, code, overflow: false }
    }
    pub fn push(&mut self, x: u8) -> Result<(), SnkErr> {
        if self.calls <= N {
            self.seen[self.calls] = x;
        } else {
            self.overflow = true;
        }
        let c = self.calls;
        self.calls += 1;
        if c == self.fail_at { Err(SnkErr(self.code)) } else { Ok(()) }
    }
}

#[derive(Clone, Copy, PartialEq, Eq, Debug)]
pub enum Outcome {
    Done,
    Src(u8),
    Snk(u8),
}

/// One stage of an adapter chain, as data, for the reference loop.
#[derive(Clone, Copy)]
pub enum Stage {
    Filter(u8),    // keep x iff x >= th
    Map(u8),       // x -> x ^ k
    FilterMap(u8), // x >= th => Some(x.wrapping_add(1)) else None
}
pub fn apply(st: Stage, x: u8) -> Option<u8> {
    match st {
        Stage::Filter(th) => if x >= th { Some(x) } else { None },
        Stage::Map(k) => Some(x ^ k),
        Stage::FilterMap(th) => if x >= th { Some(x.wrapping_add(1)) } else { None },
    }
}

/// Reference semantics of "source -> stages -> sink" with single faults.
pub fn reference(items: &[u8; N], n: usize, sfault: usize, scode: u8, stages: &[Stage], kfault: usize, kcode: u8) -> ([u8; N + 1], usize, Outcome) {
    let mut seen = [0u8; N + 1];
    let mut calls = 0usize;
    let mut i = 0;
    while i < n {
        if i == sfault {
            return (seen, calls, Outcome::Src(scode));
        }
        let mut v = Some(items[i]);
        let mut j = 0;
        while j < stages.len() {
            v = match v { Some(x) => apply(stages[j], x), None => None };
            j += 1;
        }
        if let Some(x) = v {
            seen[calls] = x;
            calls += 1;
            if calls - 1 == kfault {
                return (seen, calls, Outcome::Snk(kcode));
            }
        }
        i += 1;
    }
    (seen, calls, Outcome::Done)
}

pub fn outcome_of<T>(r: Result<T, StreamError<SrcErr, SnkErr>>) -> Outcome {
    match r {
        Ok(_) => Outcome::Done,
        Err(SourceError(SrcErr(c))) => Outcome::Src(c),
        Err(SinkError(SnkErr(c))) => Outcome::Snk(c),
    }
}

/// Drive `src` into `rec`, whole-stream or step-wise, and return the outcome.
pub fn drive<S>(src: &mut S, rec: &mut Rec, stepwise: bool) -> Outcome
where
    S: for<'x> Source<Item<'x> = u8, Error = SrcErr>,
{
    if !stepwise {
        outcome_of(src.try_for_each_item(|x| rec.push(x)))
    } else {
        let mut steps = 0;
        loop {
            // a correct driver needs at most N+1 calls on an iterator source
            if steps > N + 1 {
                return Outcome::Done;
            }
            steps += 1;
            let before = rec.calls;
            match src.try_for_some_item(|x| rec.push(x)) {
                Ok(true) => {}
                Ok(false) => {
                    // "no more items": nothing may have been consumed by this call
                    assert!(rec.calls == before, "Ok(false) after consuming an item");
                    return Outcome::Done;
                }
                Err(e) => return outcome_of::<()>(Err(e)),
            }
        }
    }
}

pub struct Setup {
    pub items: [u8; N],
    pub n: usize,
    pub sfault: usize,
    pub scode: u8,
    pub kfault: usize,
    pub kcode: u8,
    pub stepwise: bool,
}
#[cfg(kani)]
pub fn setup() -> Setup {
    let items: [u8; N] = kani::any();
    let n: usize = kani::any();
    kani::assume(n <= N);
    let sfault: usize = kani::any();
    kani::assume(sfault <= N); // == n (or beyond) means "no source fault"
    let kfault: usize = kani::any();
    kani::assume(kfault <= N + 1); // > calls means "no sink fault"
    Setup { items, n, sfault, scode: kani::any(), kfault, kcode: kani::any(), stepwise: kani::any() }
}
impl Setup {
    pub fn iter(&self) -> ArrIter {
        ArrIter { items: self.items, n: self.n, pos: 0, fault: self.sfault, code: self.scode }
    }
}

pub fn check(s: &Setup, stages: &[Stage], rec: &Rec, got: Outcome) {
    let (eseen, ecalls, eout) = reference(&s.items, s.n, s.sfault, s.scode, stages, s.kfault, s.kcode);
    #[cfg(kani)]
    {
        kani::cover!(matches!(eout, Outcome::Src(_)) && ecalls > 0, "source fault after some items");
        kani::cover!(matches!(eout, Outcome::Snk(_)) && ecalls > 1, "sink fault after some items");
        kani::cover!(matches!(eout, Outcome::Done) && ecalls == N, "all items delivered");
        kani::cover!(matches!(eout, Outcome::Done) && ecalls < s.n, "something filtered out");
    }
    assert!(!rec.overflow, "sink called more often than there are items");
    assert!(got == eout, "outcome (side and payload of the error) differs from reference");
    assert!(rec.calls == ecalls, "number of items consumed differs from reference");
    let mut i = 0;
    while i < N + 1 {
        if i < ecalls {
            assert!(rec.seen[i] == eseen[i], "consumed item differs from reference");
        }
        i += 1;
    }
}

// ---------------------------------------------------------------------------
// adapter chains: one harness per chain type (distinct monomorphisations)

macro_rules! stage_apply {
    ($src:expr, F, $p:ident) => { $src.filter_items(move |x: &u8| *x >= $p) };
    ($src:expr, M, $p:ident) => { $src.map_items(move |x: u8| x ^ $p) };
    ($src:expr, FM, $p:ident) => { $src.filter_map_items(move |x: u8| if x >= $p { Some(x.wrapping_add(1)) } else { None }) };
}
macro_rules! stage_data {
    (F, $p:ident) => { Stage::Filter($p) };
    (M, $p:ident) => { Stage::Map($p) };
    (FM, $p:ident) => { Stage::FilterMap($p) };
}

macro_rules! chain_harness {
    ($name:ident; ) => {
        #[cfg(kani)]
        #[kani::proof]
        #[kani::unwind(8)]
        pub fn $name() {
            let s = setup();
            let mut rec = Rec::new(s.kfault, s.kcode);
            let mut src = s.iter();
            let got = drive(&mut src, &mut rec, s.stepwise);
            check(&s, &[], &rec, got);
        }
    };
    ($name:ident; $a:ident) => {
        #[cfg(kani)]
        #[kani::proof]
        #[kani::unwind(8)]
        pub fn $name() {
            let s = setup();
            let p1: u8 = kani::any();
            let mut rec = Rec::new(s.kfault, s.kcode);
            let mut src = stage_apply!(s.iter(), $a, p1);
            let got = drive(&mut src, &mut rec, s.stepwise);
            check(&s, &[stage_data!($a, p1)], &rec, got);
        }
    };
    ($name:ident; $a:ident, $b:ident) => {
        #[cfg(kani)]
        #[kani::proof]
        #[kani::unwind(8)]
        pub fn $name() {
            let s = setup();
            let p1: u8 = kani::any();
            let p2: u8 = kani::any();
            let mut rec = Rec::new(s.kfault, s.kcode);
            let mut src = stage_apply!(stage_apply!(s.iter(), $a, p1), $b, p2);
            let got = drive(&mut src, &mut rec, s.stepwise);
            check(&s, &[stage_data!($a, p1), stage_data!($b, p2)], &rec, got);
        }
    };
    ($name:ident; $a:ident, $b:ident, $c:ident) => {
        #[cfg(kani)]
        #[kani::proof]
        #[kani::unwind(8)]
        pub fn $name() {
            let s = setup();
            let p1: u8 = kani::any();
            let p2: u8 = kani::any();
            let p3: u8 = kani::any();
            let mut rec = Rec::new(s.kfault, s.kcode);
            let mut src = stage_apply!(stage_apply!(stage_apply!(s.iter(), $a, p1), $b, p2), $c, p3);
            let got = drive(&mut src, &mut rec, s.stepwise);
            check(&s, &[stage_data!($a, p1), stage_data!($b, p2), stage_data!($c, p3)], &rec, got);
        }
    };
}

chain_harness!(c15_chain_0;);
chain_harness!(c15_chain_f; F);
chain_harness!(c15_chain_m; M);
chain_harness!(c15_chain_fm; FM);
chain_harness!(c15_chain_f_f; F, F);
chain_harness!(c15_chain_f_m; F, M);
chain_harness!(c15_chain_f_fm; F, FM);
chain_harness!(c15_chain_m_f; M, F);
chain_harness!(c15_chain_m_m; M, M);
chain_harness!(c15_chain_m_fm; M, FM);
chain_harness!(c15_chain_fm_f; FM, F);
chain_harness!(c15_chain_fm_m; FM, M);
chain_harness!(c15_chain_fm_fm; FM, FM);
chain_harness!(c15_chain_f_m_fm; F, M, FM);
chain_harness!(c15_chain_fm_f_m; FM, F, M);
chain_harness!(c15_chain_m_fm_f; M, FM, F);

// ---------------------------------------------------------------------------
// infallible-sink drivers: for_each_item / for_some_item (source faults only)

#[cfg(kani)]
#[kani::proof]
#[kani::unwind(8)]
pub fn c15_for_each_item() {
    let s = setup();
    let p1: u8 = kani::any();
    let mut rec = Rec::new(usize::MAX, 0);
    let mut src = s.iter().filter_items(move |x: &u8| *x >= p1);
    let r: Result<(), SrcErr> = if !s.stepwise {
        src.for_each_item(|x| {
            let _ = rec.push(x);
        })
    } else {
        let mut steps = 0;
        loop {
            if steps > N + 1 {
                break Ok(());
            }
            steps += 1;
            match src.for_some_item(|x| {
                let _ = rec.push(x);
            }) {
                Ok(true) => {}
                Ok(false) => break Ok(()),
                Err(e) => break Err(e),
            }
        }
    };
    let got = match r {
        Ok(()) => Outcome::Done,
        Err(SrcErr(c)) => Outcome::Src(c),
    };
    let mut s2 = s;
    s2.kfault = N + 1;
    check(&s2, &[Stage::Filter(p1)], &rec, got);
}

// ---------------------------------------------------------------------------
// StreamError plumbing: map_source / map_sink / reverse / inner_into keep side and payload

#[derive(Debug, Clone, Copy, PartialEq, Eq)]
pub struct AnyErr(pub u8, pub bool);
impl fmt::Display for AnyErr {
    fn fmt(&self, _: &mut fmt::Formatter<'_>) -> fmt::Result {
        Ok(())
    }
}
impl Error for AnyErr {}
impl From<SrcErr> for AnyErr {
    fn from(e: SrcErr) -> Self {
        AnyErr(e.0, false)
    }
}
impl From<SnkErr> for AnyErr {
    fn from(e: SnkErr) -> Self {
        AnyErr(e.0, true)
    }
}

#[cfg(kani)]
#[kani::proof]
pub fn c15_stream_error_plumbing() {
    let side: bool = kani::any();
    let c: u8 = kani::any();
    let mk = || -> StreamError<SrcErr, SnkErr> { if side { SinkError(SnkErr(c)) } else { SourceError(SrcErr(c)) } };
    assert!(mk().is_sink_error() == side);
    assert!(mk().is_source_error() == !side);
    let a: AnyErr = mk().inner_into();
    assert!(a == AnyErr(c, side));
    match mk().map_source(|e| SrcErr(e.0.wrapping_add(1))) {
        SourceError(SrcErr(x)) => assert!(!side && x == c.wrapping_add(1)),
        SinkError(SnkErr(x)) => assert!(side && x == c),
    }
    match mk().map_sink(|e| SnkErr(e.0.wrapping_add(1))) {
        SourceError(SrcErr(x)) => assert!(!side && x == c),
        SinkError(SnkErr(x)) => assert!(side && x == c.wrapping_add(1)),
    }
    match mk().reverse() {
        SourceError(SnkErr(x)) => assert!(side && x == c),
        SinkError(SrcErr(x)) => assert!(!side && x == c),
    }
    let r: StreamResult<(), SrcErr, SnkErr> = Err(mk());
    match r.map_source_err(|e| SrcErr(e.0 ^ 1)) {
        Err(SourceError(SrcErr(x))) => assert!(!side && x == c ^ 1),
        Err(SinkError(SnkErr(x))) => assert!(side && x == c),
        Ok(()) => assert!(false),
    }
    let r: StreamResult<(), SrcErr, SnkErr> = Err(mk());
    match r.map_sink_err(|e| SnkErr(e.0 ^ 1)) {
        Err(SourceError(SrcErr(x))) => assert!(!side && x == c),
        Err(SinkError(SnkErr(x))) => assert!(side && x == c ^ 1),
        Ok(()) => assert!(false),
    }
    kani::cover!(side, "sink side");
    kani::cover!(!side, "source side");
}

// ---------------------------------------------------------------------------
// A source that delivers SEVERAL items per step (like a parser that yields all triples of one statement per
// call), with the fault possibly in the middle of a step.
pub struct Chunky {
    pub items: [u8; N],
    pub n: usize,
    pub pos: usize,
    pub fault: usize,
    pub code: u8,
    pub chunk: usize,
}
impl Source for Chunky {
    type Item<'x> = u8;
    type Error = SrcErr;
    fn try_for_some_item<E, F>(&mut self, mut f: F) -> StreamResult<bool, SrcErr, E>
    where
        E: Error + Send + Sync + 'static,
        F: FnMut(u8) -> Result<(), E>,
    {
        if self.pos >= self.n {
            return Ok(false);
        }
        let mut c = 0;
        while c < self.chunk && self.pos < self.n {
            let i = self.pos;
            self.pos += 1;
            if i == self.fault {
                return Err(SourceError(SrcErr(self.code)));
            }
            f(self.items[i]).map_err(SinkError)?;
            c += 1;
        }
        Ok(true)
    }
}
impl Setup {
    #[cfg(kani)]
    pub fn chunky(&self) -> Chunky {
        let chunk: usize = kani::any();
        kani::assume(chunk >= 1 && chunk <= N);
        Chunky { items: self.items, n: self.n, pos: 0, fault: self.sfault, code: self.scode, chunk }
    }
}

macro_rules! chunky_harness {
    ($name:ident; $a:ident) => {
        #[cfg(kani)]
        #[kani::proof]
        #[kani::unwind(8)]
        pub fn $name() {
            let s = setup();
            let p1: u8 = kani::any();
            let mut rec = Rec::new(s.kfault, s.kcode);
            let mut src = stage_apply!(s.chunky(), $a, p1);
            let got = drive(&mut src, &mut rec, s.stepwise);
            check(&s, &[stage_data!($a, p1)], &rec, got);
        }
    };
}
chunky_harness!(c15_chunky_f; F);
chunky_harness!(c15_chunky_m; M);
chunky_harness!(c15_chunky_fm; FM);

// IntoIterator of map_items / filter_map_items over a multi-item-per-step source: the iterator must yield the
// items before the fault, in order, and only then the error.
macro_rules! into_iter_harness {
    ($name:ident; $a:ident) => {
        #[cfg(kani)]
        #[kani::proof]
        #[kani::unwind(8)]
        pub fn $name() {
            let mut s = setup();
            s.kfault = N + 1; // no sink in this scenario
            let p1: u8 = kani::any();
            let mut rec = Rec::new(N + 1, 0);
            let mut it = stage_apply!(s.chunky(), $a, p1).into_iter();
            let mut got = Outcome::Done;
            let mut k = 0;
            while k < N + 2 {
                match it.next() {
                    None => break,
                    Some(Ok(v)) => {
                        let _ = rec.push(v);
                    }
                    Some(Err(SrcErr(c))) => {
                        got = Outcome::Src(c);
                        break;
                    }
                }
                k += 1;
            }
            check(&s, &[stage_data!($a, p1)], &rec, got);
            std::mem::forget(it);
        }
    };
}
into_iter_harness!(c15_into_iter_m; M);
into_iter_harness!(c15_into_iter_fm; FM);
