// C04 (K part) — PrefixMap::get_checked_prefixed_pair is sound: whatever (prefix, suffix) it returns, the prefix's
// namespace followed by the suffix is exactly the IRI, and the suffix satisfies the caller's check. This is what
// makes the prefixed names written by the Turtle/TriG serializers denote the IRI they stand for.
use crate::prefix::{Prefix, PrefixMap};
use sophia_iri::Iri;

pub const L: usize = 4;

#[cfg(kani)]
fn ascii_str(buf: &[u8]) -> &str {
    unsafe { std::str::from_utf8_unchecked(buf) }
}

#[cfg(kani)]
#[kani::proof]
#[kani::unwind(7)]
pub fn c04_prefix_pair_sound() {
    // IRI text: L symbolic bytes over {a, b, '.', '-'}; namespaces: two symbolic prefixes of that text (so that
    // they overlap), or a namespace that does not match at all.
    let buf: [u8; L] = kani::any();
    let mut i = 0;
    while i < L {
        kani::assume(buf[i] == b'a' || buf[i] == b'b' || buf[i] == b'.' || buf[i] == b'-');
        i += 1;
    }
    let iri_s = ascii_str(&buf);
    let l1: usize = kani::any();
    let l2: usize = kani::any();
    kani::assume(l1 <= L && l2 <= L);
    let other: bool = kani::any();
    let ns1 = ascii_str(&buf[..l1]);
    let ns2 = if other { "zz" } else { ascii_str(&buf[..l2]) };
    let map = [
        (Prefix::new_unchecked_const("p"), Iri::new_unchecked(ns1)),
        (Prefix::new_unchecked_const("q"), Iri::new_unchecked(ns2)),
    ];
    let forbid: u8 = kani::any();
    let nonempty: bool = kani::any();
    let check = |s: &str| -> bool { (!nonempty || !s.is_empty()) && (s.is_empty() || s.as_bytes()[0] != forbid) };
    let res = map[..].get_checked_prefixed_pair(Iri::new_unchecked(iri_s), check);
    kani::cover!(res.is_some() && l1 != l2 && !other, "a pair is returned with two overlapping namespaces");
    kani::cover!(res.is_none(), "no pair");
    if let Some((pre, suf)) = res {
        let ns = if pre.as_str().as_bytes()[0] == b'p' { ns1 } else { ns2 };
        assert!(pre.as_str().len() == 1 && (pre.as_str().as_bytes()[0] == b'p' || pre.as_str().as_bytes()[0] == b'q'), "returned prefix is not in the map");
        let sb = suf.as_bytes();
        assert!(ns.len() + sb.len() == L, "namespace + suffix does not have the IRI's length");
        let nb = ns.as_bytes();
        let mut k = 0;
        while k < L {
            let c = if k < nb.len() { nb[k] } else { sb[k - nb.len()] };
            assert!(c == buf[k], "namespace + suffix is not the IRI");
            k += 1;
        }
        assert!(check(&suf), "returned suffix does not satisfy the caller's check");
        std::mem::forget(suf);
    }
}
