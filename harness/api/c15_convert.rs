// C15 — to_quads() / to_triples() and the Triple/Quad flavoured filter adapters keep order, faults and blame.
use super::vt::*;
use crate::quad::Quad;
use crate::source::*;
use crate::triple::Triple;
use std::fmt;

pub const N: usize = 3;

#[derive(Debug, Clone, Copy, PartialEq, Eq)]
pub struct SrcErr(pub u8);
impl fmt::Display for SrcErr {
    fn fmt(&self, _: &mut fmt::Formatter<'_>) -> fmt::Result {
        Ok(())
    }
}
impl std::error::Error for SrcErr {}
#[derive(Debug, Clone, Copy, PartialEq, Eq)]
pub struct SnkErr(pub u8);
impl fmt::Display for SnkErr {
    fn fmt(&self, _: &mut fmt::Formatter<'_>) -> fmt::Result {
        Ok(())
    }
}
impl std::error::Error for SnkErr {}

pub struct TIt {
    pub items: [u8; N],
    pub n: usize,
    pub pos: usize,
    pub fault: usize,
    pub code: u8,
}
impl Iterator for TIt {
    type Item = Result<[VT; 3], SrcErr>;
    fn next(&mut self) -> Option<Self::Item> {
        if self.pos >= self.n {
            return None;
        }
        let i = self.pos;
        self.pos += 1;
        if i == self.fault { Some(Err(SrcErr(self.code))) } else { Some(Ok([VT(self.items[i] % 6), VT(1), VT(2)])) }
    }
}
pub struct QIt(pub TIt);
impl Iterator for QIt {
    type Item = Result<([VT; 3], Option<VT>), SrcErr>;
    fn next(&mut self) -> Option<Self::Item> {
        match self.0.next() {
            None => None,
            Some(Err(e)) => Some(Err(e)),
            Some(Ok(t)) => Some(Ok((t, Some(VT(3))))),
        }
    }
}

#[cfg(kani)]
fn any_tit() -> TIt {
    let n: usize = kani::any();
    let fault: usize = kani::any();
    kani::assume(n <= N && fault <= N);
    TIt { items: kani::any(), n, pos: 0, fault, code: kani::any() }
}

/// expected: subjects of the items before the source fault, those with code >= th only (filter), sink fails at call kfault
fn reference(it: &TIt, th: u8, kfault: usize, kcode: u8) -> ([u8; N], usize, u8, u8) {
    // returns (seen subjects, calls, outcome 0/1/2, payload)
    let mut seen = [0u8; N];
    let mut calls = 0;
    let mut i = 0;
    while i < it.n {
        if i == it.fault {
            return (seen, calls, 1, it.code);
        }
        let s = it.items[i] % 6;
        if s >= th {
            seen[calls] = s;
            calls += 1;
            if calls - 1 == kfault {
                return (seen, calls, 2, kcode);
            }
        }
        i += 1;
    }
    (seen, calls, 0, 0)
}

macro_rules! convert_harness {
    ($name:ident, $mk:expr, $subj:expr, $check_g:expr) => {
        #[cfg(kani)]
        #[kani::proof]
        #[kani::unwind(6)]
        pub fn $name() {
            let src0 = any_tit();
            let th: u8 = kani::any();
            let kfault: usize = kani::any();
            let kcode: u8 = kani::any();
            kani::assume(kfault <= N + 1);
            let (eseen, ecalls, eout, epay) = reference(&src0, th, kfault, kcode);
            let mut seen = [0u8; N];
            let mut calls = 0usize;
            let mut gok = true;
            let mut src = ($mk)(src0, th);
            let r = src.try_for_each_item(|x| -> Result<(), SnkErr> {
                if calls < N {
                    seen[calls] = ($subj)(&x);
                }
                if !($check_g)(&x) {
                    gok = false;
                }
                let c = calls;
                calls += 1;
                if c == kfault { Err(SnkErr(kcode)) } else { Ok(()) }
            });
            kani::cover!(eout == 1 && ecalls >= 1, "source fault after a delivered item");
            kani::cover!(eout == 2 && ecalls >= 2, "sink fault after a delivered item");
            kani::cover!(eout == 0 && ecalls == N, "everything delivered");
            match r {
                Ok(()) => assert!(eout == 0, "a fault was swallowed"),
                Err(SourceError(SrcErr(c))) => assert!(eout == 1 && c == epay, "wrong side or payload (source)"),
                Err(SinkError(SnkErr(c))) => assert!(eout == 2 && c == epay, "wrong side or payload (sink)"),
            }
            assert!(calls == ecalls, "number of items consumed differs from reference");
            let mut i = 0;
            while i < N {
                if i < ecalls {
                    assert!(seen[i] == eseen[i], "consumed item differs from reference");
                }
                i += 1;
            }
            assert!(gok, "graph name of a converted item is wrong");
        }
    };
}

fn subj_q<Q: Quad>(q: &Q) -> u8 {
    code_of(q.s()).unwrap_or(99)
}
fn subj_t<T: Triple>(t: &T) -> u8 {
    code_of(t.s()).unwrap_or(99)
}
fn g_none<Q: Quad>(q: &Q) -> bool {
    q.g().is_none()
}
fn g_any<T>(_t: &T) -> bool {
    true
}

// triples --filter_triples--> to_quads : every quad is in the default graph
convert_harness!(c15_to_quads, |s: TIt, th: u8| s.filter_triples(move |t: &[VT; 3]| t[0].0 >= th).to_quads(), subj_q, g_none);
// quads --filter_quads--> to_triples
convert_harness!(c15_to_triples, |s: TIt, th: u8| QIt(s).filter_quads(move |q: &([VT; 3], Option<VT>)| q.0[0].0 >= th).to_triples(), subj_t, g_any);
