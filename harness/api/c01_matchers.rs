// C01 — the shipped matcher types do what the stores rely on:
//   matches(x) agrees with the reference predicate, and constant() = Some(c) only if matches(x) <=> x eq c.
use super::vt::*;
use crate::term::matcher::{Any, GraphNameMatcher, Not, TermMatcher};
use crate::term::{Term, TermKind};

#[cfg(kani)]
fn any_vt() -> VT {
    let c: u8 = kani::any();
    kani::assume(c < NCODES);
    VT(c)
}
#[cfg(kani)]
fn any_gn() -> Option<VT> {
    if kani::any() { Some(any_vt()) } else { None }
}
fn same(a: VT, b: VT) -> bool {
    a.0 % NCODES == b.0 % NCODES
}
fn same_gn(a: Option<VT>, b: Option<VT>) -> bool {
    match (a, b) {
        (None, None) => true,
        (Some(x), Some(y)) => same(x, y),
        _ => false,
    }
}

/// contract of TermMatcher::constant
fn contract<M: TermMatcher<Term = VT>>(m: &M, x: VT) {
    if let Some(c) = m.constant() {
        assert!(m.matches(&x) == same(*c, x), "constant() is Some(c) but matches(x) is not 'x eq c'");
    }
}
fn contract_gn<M: GraphNameMatcher<Term = VT>>(m: &M, x: Option<VT>) {
    if let Some(c) = m.constant() {
        assert!(m.matches(x.as_ref()) == same_gn(c.copied(), x), "constant() is Some(g) but matches(x) is not 'x eq g'");
    }
}

#[cfg(kani)]
#[kani::proof]
#[kani::unwind(5)]
pub fn c01_term_matchers() {
    let (a, b, x) = (any_vt(), any_vt(), any_vt());
    // Any
    assert!(TermMatcher::matches(&Any, &x));
    assert!(TermMatcher::constant(&Any).is_none());
    // Option<T>
    let none: Option<VT> = None;
    assert!(!none.matches(&x) && none.constant().is_none());
    let some = Some(a);
    assert!(some.matches(&x) == same(a, x));
    assert!(matches!(some.constant(), Some(c) if same(*c, a)), "Some(t).constant() must be t");
    contract(&some, x);
    // [T; 0], [T; 1], [T; 2]
    let a0: [VT; 0] = [];
    assert!(!a0.matches(&x) && a0.constant().is_none());
    let a1 = [a];
    assert!(a1.matches(&x) == same(a, x));
    assert!(matches!(a1.constant(), Some(c) if same(*c, a)), "[t].constant() must be t");
    let a2 = [a, b];
    assert!(a2.matches(&x) == (same(a, x) || same(b, x)));
    contract(&a1, x);
    contract(&a2, x); // a two-element array may only expose a constant if matching is exactly "eq that constant"
    // &[T]
    let s1: &[VT] = &a1[..];
    let s2: &[VT] = &a2[..];
    assert!(s1.matches(&x) == same(a, x) && s2.matches(&x) == (same(a, x) || same(b, x)));
    contract(&s1, x);
    contract(&s2, x);
    // Not, TermKind
    assert!(Not([a]).matches(&x) == !same(a, x));
    assert!(Not([a]).constant().is_none());
    assert!(TermKind::Iri.matches(&x) == !x.is_bn() && TermKind::BlankNode.matches(&x) == x.is_bn());
    assert!(!TermKind::Literal.matches(&x) && TermMatcher::constant(&TermKind::Iri).is_none());
    // matcher_ref forwards
    assert!(a1.matcher_ref().matches(&x) == same(a, x));
    assert!(matches!(a1.matcher_ref().constant(), Some(c) if same(*c, a)));
    kani::cover!(same(a, x) && !same(b, x), "x equals the first element only");
}

#[cfg(kani)]
#[kani::proof]
#[kani::unwind(5)]
pub fn c01_graph_name_matchers() {
    let (g, h, x) = (any_gn(), any_gn(), any_gn());
    let xr = x.as_ref();
    assert!(GraphNameMatcher::matches(&Any, xr));
    assert!(GraphNameMatcher::constant(&Any).is_none());
    // Option<Option<T>>
    let none: Option<Option<VT>> = None;
    assert!(!none.matches(xr) && none.constant().is_none());
    let some = Some(g);
    assert!(some.matches(xr) == same_gn(g, x));
    assert!(matches!(some.constant(), Some(c) if same_gn(c.copied(), g)));
    contract_gn(&some, x);
    // [GraphName<T>; N]
    let a1 = [g];
    let a2 = [g, h];
    assert!(a1.matches(xr) == same_gn(g, x));
    assert!(a2.matches(xr) == (same_gn(g, x) || same_gn(h, x)));
    assert!(matches!(a1.constant(), Some(c) if same_gn(c.copied(), g)));
    contract_gn(&a1, x);
    contract_gn(&a2, x);
    let s2: &[Option<VT>] = &a2[..];
    assert!(s2.matches(xr) == (same_gn(g, x) || same_gn(h, x)));
    contract_gn(&s2, x);
    // Option<TermKind>: None selects the default graph, Some(kind) the named graphs of that kind
    let kn: Option<TermKind> = None;
    assert!(kn.matches(xr) == x.is_none(), "None::<TermKind> must match exactly the default graph");
    assert!(Some(TermKind::Iri).matches(xr) == matches!(x, Some(t) if !t.is_bn()));
    assert!(Some(TermKind::BlankNode).matches(xr) == matches!(x, Some(t) if t.is_bn()));
    // Not, term matcher lifted with gn()
    assert!(Not([g]).matches(xr) == !same_gn(g, x));
    let t = any_vt();
    let lifted = [t].gn();
    assert!(lifted.matches(xr) == matches!(x, Some(y) if same(t, y)), "a lifted term matcher never matches the default graph");
    assert!(matches!(lifted.constant(), Some(Some(c)) if same(*c, t)));
    contract_gn(&lifted, x);
    kani::cover!(x.is_none() && g.is_none(), "default graph on both sides");
    kani::cover!(x.is_some() && g.is_some() && same_gn(g, x), "same named graph");
}
