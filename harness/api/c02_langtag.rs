// C02 — LanguageTag's own PartialEq / Ord / Hash (ASCII case folding) are mutually consistent on tags that
// contain digits and '-' as well as letters of both cases.
use crate::term::LanguageTag;
use std::cmp::Ordering;
use std::hash::{Hash, Hasher};

pub struct RecH {
    pub buf: [u8; 32],
    pub n: usize,
}
impl Hasher for RecH {
    fn finish(&self) -> u64 {
        0
    }
    fn write(&mut self, bytes: &[u8]) {
        let mut i = 0;
        while i < bytes.len() {
            if self.n < 32 {
                self.buf[self.n] = bytes[i];
                self.n += 1;
            }
            i += 1;
        }
    }
}

#[cfg(kani)]
fn any_tag(buf: &mut [u8; 3]) -> usize {
    // [letter] ([alnum or '-'] [alnum])?  over {a, A, b, 1, -}
    let pick = |k: u8| match k % 5 {
        0 => b'a',
        1 => b'A',
        2 => b'b',
        3 => b'1',
        _ => b'-',
    };
    let (k0, k1, k2): (u8, u8, u8) = (kani::any(), kani::any(), kani::any());
    kani::assume(k0 % 5 < 3 && k2 % 5 < 4);
    buf[0] = pick(k0);
    buf[1] = pick(k1);
    buf[2] = pick(k2);
    if kani::any() { 1 } else { 3 }
}

fn fold(c: u8) -> u8 {
    if c >= b'A' && c <= b'Z' { c + 32 } else { c }
}

#[cfg(kani)]
#[kani::proof]
#[kani::unwind(6)]
pub fn c02_langtag_laws() {
    let mut b1 = [0u8; 3];
    let mut b2 = [0u8; 3];
    let l1 = any_tag(&mut b1);
    let l2 = any_tag(&mut b2);
    let s1 = unsafe { std::str::from_utf8_unchecked(&b1[..l1]) };
    let s2 = unsafe { std::str::from_utf8_unchecked(&b2[..l2]) };
    let t1 = LanguageTag::new_unchecked_const(unsafe { std::mem::transmute::<&str, &'static str>(s1) });
    let t2 = LanguageTag::new_unchecked_const(unsafe { std::mem::transmute::<&str, &'static str>(s2) });
    // oracle: equal iff same length and bytes equal after ASCII case folding
    let mut same = l1 == l2;
    let mut i = 0;
    while i < 3 {
        if i < l1 && i < l2 && fold(b1[i]) != fold(b2[i]) {
            same = false;
        }
        i += 1;
    }
    let e = t1 == t2;
    let c = Ord::cmp(&t1, &t2);
    assert!(e == same, "LanguageTag == is not 'equal up to ASCII case'");
    assert!((c == Ordering::Equal) == e, "LanguageTag::cmp is Equal for different tags, or not Equal for tags that are ==");
    assert!(Ord::cmp(&t2, &t1) == c.reverse(), "LanguageTag::cmp is not antisymmetric");
    let mut h1 = RecH { buf: [0; 32], n: 0 };
    let mut h2 = RecH { buf: [0; 32], n: 0 };
    t1.hash(&mut h1);
    t2.hash(&mut h2);
    if e {
        assert!(h1.n == h2.n, "equal tags feed different data to the hasher");
        let mut k = 0;
        while k < 32 {
            if k < h1.n {
                assert!(h1.buf[k] == h2.buf[k], "equal tags feed different data to the hasher");
            }
            k += 1;
        }
    }
    kani::cover!(e && (b1[0] != b2[0]), "equal tags differing in case");
    kani::cover!(!e && l1 == 3 && l2 == 3, "different 3-byte tags");
}
