// C02 — term equality, hashing and ordering are lawful (default Term::eq / Term::cmp / Term::hash, LanguageTag's
// case folding, NsTerm::eq override). Lean term type T2 with ALL kinds; one harness per kind (the kind tag is the
// only concrete thing), three symbolic terms each.
use crate::ns::NsTerm;
use crate::term::{BnodeId, IriRef, LanguageTag, Term, TermKind, VarName};
use crate::MownStr;
use std::cmp::Ordering;
use std::hash::Hasher;

static TXT: &str = "abAB";
static LEX: &str = "ab";
static DT: &str = "xy";
static TAGS: &str = "enENeNfr";
static LANGSTRING: &str = "http://www.w3.org/1999/02/22-rdf-syntax-ns#langString";

#[inline]
fn sub(s: &'static str, i: usize, n: usize) -> &'static str {
    // s is ASCII; i, n in range by construction
    unsafe { std::str::from_utf8_unchecked(std::slice::from_raw_parts(s.as_ptr().add(i), n)) }
}

pub const K_BN: u8 = 0;
pub const K_IRI: u8 = 1;
pub const K_LIT: u8 = 2; // typed literal
pub const K_TAG: u8 = 3; // language-tagged literal
pub const K_VAR: u8 = 4;
pub const K_TRIPLE: u8 = 5;

#[derive(Clone, Copy, Debug)]
pub struct T2 {
    pub k: u8,
    pub v: u8,
    pub sub: [u8; 3], // for K_TRIPLE: three atom codes (kind * 8 + v)
}
pub fn atom(code: u8) -> T2 {
    T2 { k: code / 8, v: code % 8, sub: [0; 3] }
}

impl Term for T2 {
    type BorrowTerm<'x> = T2;
    fn kind(&self) -> TermKind {
        match self.k {
            K_BN => TermKind::BlankNode,
            K_IRI => TermKind::Iri,
            K_LIT | K_TAG => TermKind::Literal,
            K_VAR => TermKind::Variable,
            _ => TermKind::Triple,
        }
    }
    fn iri(&self) -> Option<IriRef<MownStr<'_>>> {
        if self.k == K_IRI { Some(IriRef::new_unchecked_const(sub(TXT, (self.v & 3) as usize, 1)).map_unchecked(MownStr::from_ref)) } else { None }
    }
    fn bnode_id(&self) -> Option<BnodeId<MownStr<'_>>> {
        if self.k == K_BN { Some(BnodeId::new_unchecked_const(sub(TXT, (self.v & 3) as usize, 1)).map_unchecked(MownStr::from_ref)) } else { None }
    }
    fn variable(&self) -> Option<VarName<MownStr<'_>>> {
        if self.k == K_VAR { Some(VarName::new_unchecked_const(sub(TXT, (self.v & 3) as usize, 1)).map_unchecked(MownStr::from_ref)) } else { None }
    }
    fn lexical_form(&self) -> Option<MownStr<'_>> {
        if self.k == K_LIT || self.k == K_TAG { Some(MownStr::from_ref(sub(LEX, (self.v & 1) as usize, 1))) } else { None }
    }
    fn datatype(&self) -> Option<IriRef<MownStr<'_>>> {
        match self.k {
            K_LIT => Some(IriRef::new_unchecked_const(sub(DT, ((self.v >> 1) & 1) as usize, 1)).map_unchecked(MownStr::from_ref)),
            K_TAG => Some(IriRef::new_unchecked_const(LANGSTRING).map_unchecked(MownStr::from_ref)),
            _ => None,
        }
    }
    fn language_tag(&self) -> Option<LanguageTag<MownStr<'_>>> {
        if self.k == K_TAG { Some(LanguageTag::new_unchecked_const(sub(TAGS, 2 * ((self.v >> 1) & 3) as usize, 2)).map_unchecked(MownStr::from_ref)) } else { None }
    }
    fn triple(&self) -> Option<[T2; 3]> {
        if self.k == K_TRIPLE { Some([atom(self.sub[0]), atom(self.sub[1]), atom(self.sub[2])]) } else { None }
    }
    fn to_triple(self) -> Option<[T2; 3]> {
        self.triple()
    }
    fn borrow_term(&self) -> T2 {
        *self
    }
}

/// what "the same RDF term" means for T2, written directly on the encoding (the oracle)
pub fn same(a: T2, b: T2) -> bool {
    if a.k == K_TRIPLE || b.k == K_TRIPLE {
        return a.k == b.k && same(atom(a.sub[0]), atom(b.sub[0])) && same(atom(a.sub[1]), atom(b.sub[1])) && same(atom(a.sub[2]), atom(b.sub[2]));
    }
    if a.k != b.k {
        return false;
    }
    match a.k {
        K_BN | K_IRI | K_VAR => (a.v & 3) == (b.v & 3),
        K_LIT => (a.v & 3) == (b.v & 3),
        _ => {
            // tagged: same lexical form, tags equal up to ASCII case: tags 0,1,2 are en/EN/eN, 3 is fr
            let (ta, tb) = ((a.v >> 1) & 3, (b.v >> 1) & 3);
            (a.v & 1) == (b.v & 1) && ((ta == 3) == (tb == 3))
        }
    }
}

pub struct RecH {
    pub buf: [u8; 96],
    pub n: usize,
    pub overflow: bool,
}
impl RecH {
    pub fn new() -> Self {
        RecH { buf: [0; 96], n: 0, overflow: false }
    }
}
impl Hasher for RecH {
    fn finish(&self) -> u64 {
        0
    }
    fn write(&mut self, bytes: &[u8]) {
        let mut i = 0;
        while i < bytes.len() {
            if self.n < 96 {
                self.buf[self.n] = bytes[i];
                self.n += 1;
            } else {
                self.overflow = true;
            }
            i += 1;
        }
    }
}
pub fn same_writes(a: &RecH, b: &RecH) -> bool {
    if a.n != b.n || a.overflow || b.overflow {
        return false;
    }
    let mut i = 0;
    while i < 96 {
        if i < a.n && a.buf[i] != b.buf[i] {
            return false;
        }
        i += 1;
    }
    true
}

#[cfg(kani)]
pub fn any_of_kind(k: u8) -> T2 {
    let v: u8 = kani::any();
    kani::assume(v < 8);
    let mut sub = [0u8; 3];
    if k == K_TRIPLE {
        let mut i = 0;
        while i < 3 {
            let c: u8 = kani::any();
            // components: blank nodes or IRIs over the 4-letter pool (case variants included)
            kani::assume(c < 16 && (c % 8) < 4);
            sub[i] = c;
            i += 1;
        }
    }
    T2 { k, v, sub }
}

pub fn laws(a: T2, b: T2, c: T2, with_hash: bool) {
    // equality: agrees with the oracle, hence is an equivalence; checked directly too
    let (eab, eba, ebc, eac) = (Term::eq(&a, b), Term::eq(&b, a), Term::eq(&b, c), Term::eq(&a, c));
    assert!(Term::eq(&a, a), "eq is not reflexive");
    assert!(eab == eba, "eq is not symmetric");
    assert!(!(eab && ebc) || eac, "eq is not transitive");
    assert!(eab == same(a, b), "eq differs from 'denote the same RDF term'");
    // ordering
    let (cab, cba, cbc, cac) = (Term::cmp(&a, b), Term::cmp(&b, a), Term::cmp(&b, c), Term::cmp(&a, c));
    assert!(cab == cba.reverse(), "cmp is not antisymmetric");
    assert!((cab == Ordering::Equal) == eab, "cmp is Equal for different terms, or not Equal for equal terms");
    assert!(!(cab != Ordering::Greater && cbc != Ordering::Greater) || cac != Ordering::Greater, "cmp is not transitive");
    // hashing
    if with_hash {
        let mut ha = RecH::new();
        let mut hb = RecH::new();
        Term::hash(&a, &mut ha);
        Term::hash(&b, &mut hb);
        assert!(!ha.overflow && !hb.overflow);
        assert!(!eab || same_writes(&ha, &hb), "equal terms feed different data to the hasher");
    }
    #[cfg(kani)]
    {
        kani::cover!(eab && (a.v != b.v || a.sub[0] != b.sub[0]), "equal terms with different encodings (e.g. tags differing in case)");
        kani::cover!(!eab, "different terms");
    }
}

macro_rules! kind_harness {
    ($name:ident, $k:expr, $hash:expr) => {
        #[cfg(kani)]
        #[kani::proof]
        #[kani::unwind(8)]
        pub fn $name() {
            let a = any_of_kind($k);
            let b = any_of_kind($k);
            let c = any_of_kind($k);
            laws(a, b, c, $hash);
        }
    };
}
kind_harness!(c02_laws_bnode, K_BN, true);
kind_harness!(c02_laws_iri, K_IRI, true);
kind_harness!(c02_laws_variable, K_VAR, true);
kind_harness!(c02_laws_typed_literal, K_LIT, true);
kind_harness!(c02_laws_tagged_literal, K_TAG, true);
// quoted triples: two symbolic triples (the third is the first again: transitivity through the components is
// covered by the atom harnesses)
#[cfg(kani)]
#[kani::proof]
#[kani::unwind(8)]
pub fn c02_laws_triple() {
    let a = any_of_kind(K_TRIPLE);
    let b = any_of_kind(K_TRIPLE);
    laws(a, b, a, false);
}

#[cfg(kani)]
#[kani::proof]
#[kani::unwind(8)]
pub fn c02_hash_triple() {
    let a = any_of_kind(K_TRIPLE);
    let b = any_of_kind(K_TRIPLE);
    let mut ha = RecH::new();
    let mut hb = RecH::new();
    Term::hash(&a, &mut ha);
    Term::hash(&b, &mut hb);
    kani::cover!(Term::eq(&a, b), "equal quoted triples");
    assert!(!Term::eq(&a, b) || same_writes(&ha, &hb), "equal quoted triples feed different data to the hasher");
}

// tagged vs typed literals and the kind order blank < IRI < literal < triple < variable (one harness per kind pair)
macro_rules! cross_harness {
    ($name:ident, $ka:expr, $kb:expr) => {
        #[cfg(kani)]
        #[kani::proof]
        #[kani::unwind(8)]
        pub fn $name() {
            let (ka, kb) = ($ka, $kb);
            let a = any_of_kind(ka);
            let b = any_of_kind(kb);
            let rank = |k: u8| -> u8 {
                match k {
                    K_BN => 0,
                    K_IRI => 1,
                    K_LIT | K_TAG => 2,
                    K_TRIPLE => 3,
                    _ => 4,
                }
            };
            assert!(!Term::eq(&a, b) && !Term::eq(&b, a), "terms of different kinds (or a tagged and a typed literal) compare equal");
            let c = Term::cmp(&a, b);
            assert!(c == Term::cmp(&b, a).reverse(), "cmp is not antisymmetric across kinds");
            assert!(c != Ordering::Equal, "cmp is Equal for different terms");
            if rank(ka) != rank(kb) {
                assert!((c == Ordering::Less) == (rank(ka) < rank(kb)), "kind order is not blank < IRI < literal < triple < variable");
            }
            kani::cover!(true, "reached");
        }
    };
}
cross_harness!(c02_cross_bn_iri, K_BN, K_IRI);
cross_harness!(c02_cross_iri_lit, K_IRI, K_LIT);
cross_harness!(c02_cross_lit_tag, K_LIT, K_TAG);
cross_harness!(c02_cross_tag_triple, K_TAG, K_TRIPLE);
cross_harness!(c02_cross_triple_var, K_TRIPLE, K_VAR);
cross_harness!(c02_cross_bn_var, K_BN, K_VAR);

// NsTerm::eq (hand-written override) agrees with comparing the concatenated IRI
#[cfg(kani)]
#[derive(Debug, Clone, Copy)]
pub struct BufIri {
    pub buf: [u8; 5],
    pub len: usize,
}
#[cfg(kani)]
impl Term for BufIri {
    type BorrowTerm<'x> = &'x BufIri;
    fn kind(&self) -> TermKind {
        TermKind::Iri
    }
    fn iri(&self) -> Option<IriRef<MownStr<'_>>> {
        Some(IriRef::new_unchecked(MownStr::from_ref(unsafe { std::str::from_utf8_unchecked(&self.buf[..self.len]) })))
    }
    fn borrow_term(&self) -> &BufIri {
        self
    }
}

#[cfg(kani)]
#[kani::proof]
#[kani::unwind(8)]
pub fn c02_nsterm_eq() {
    let nbuf: [u8; 4] = kani::any();
    let xbuf: [u8; 5] = kani::any();
    let mut i = 0;
    while i < 4 {
        kani::assume(nbuf[i] == b'a' || nbuf[i] == b'b' || nbuf[i] == b'/');
        i += 1;
    }
    i = 0;
    while i < 5 {
        kani::assume(xbuf[i] == b'a' || xbuf[i] == b'b' || xbuf[i] == b'/');
        i += 1;
    }
    let total: usize = kani::any();
    let split: usize = kani::any();
    let xlen: usize = kani::any();
    kani::assume(total <= 4 && split <= total && xlen <= 5);
    let ns = unsafe { std::str::from_utf8_unchecked(&nbuf[..split]) };
    let suffix = unsafe { std::str::from_utf8_unchecked(&nbuf[split..total]) };
    let t = NsTerm::new_unchecked(IriRef::new_unchecked(ns), suffix);
    let x = BufIri { buf: xbuf, len: xlen };
    let mut expected = total == xlen;
    i = 0;
    while i < 4 {
        if i < total && i < xlen && nbuf[i] != xbuf[i] {
            expected = false;
        }
        i += 1;
    }
    kani::cover!(expected && split > 0 && split < total, "equal with a proper split");
    kani::cover!(!expected && xlen > total, "other IRI is longer");
    assert!(Term::eq(&t, &x) == expected, "NsTerm::eq differs from comparing namespace+suffix with the other IRI");
}
