// C15 — NqSerializer as the consumer of a quad stream (default-graph and named-graph quads; the writer fault may be transient): with a source fault at item k or a writer fault after a
// byte budget, the bytes written are exactly (a prefix of) the serialisation of the items before the fault, the
// source is not pulled beyond the failing item, and the error is blamed on the right side.
use crate::serializer::nq::NqSerializer;
use sophia_api::serializer::QuadSerializer;
use sophia_api::source::StreamError;
use sophia_api::term::{IriRef, Term, TermKind};
use sophia_api::MownStr;
use std::io;

pub const NI: usize = 2;
pub const STMT: usize = 17;
pub const OUTCAP: usize = NI * STMT + 4;
static POOL: &str = "abc";

#[derive(Clone, Copy, Debug)]
pub struct LI(pub u8);
impl Term for LI {
    type BorrowTerm<'x> = LI;
    fn kind(&self) -> TermKind {
        TermKind::Iri
    }
    fn iri(&self) -> Option<IriRef<MownStr<'_>>> {
        let s = unsafe { std::str::from_utf8_unchecked(std::slice::from_raw_parts(POOL.as_ptr().add((self.0 % 3) as usize), 1)) };
        Some(IriRef::new_unchecked_const(s).map_unchecked(MownStr::from_ref))
    }
    fn borrow_term(&self) -> LI {
        *self
    }
}

#[derive(Debug, Clone, Copy, PartialEq, Eq)]
pub struct SrcErr(pub u8);
impl std::fmt::Display for SrcErr {
    fn fmt(&self, _: &mut std::fmt::Formatter<'_>) -> std::fmt::Result {
        Ok(())
    }
}
impl std::error::Error for SrcErr {}

pub struct TSrc {
    pub named: [bool; NI],
    pub items: [[u8; 3]; NI],
    pub n: usize,
    pub pos: usize,
    pub fault: usize,
    pub code: u8,
}
impl Iterator for TSrc {
    type Item = Result<([LI; 3], Option<LI>), SrcErr>;
    fn next(&mut self) -> Option<Self::Item> {
        if self.pos >= self.n {
            return None;
        }
        let i = self.pos;
        self.pos += 1;
        if i == self.fault {
            Some(Err(SrcErr(self.code)))
        } else {
            Some(Ok(([LI(self.items[i][0]), LI(self.items[i][1]), LI(self.items[i][2])], if self.named[i] { Some(LI(1)) } else { None })))
        }
    }
}

/// writer that fails once `budget` bytes have been accepted
pub struct BW {
    pub buf: [u8; OUTCAP],
    pub len: usize,
    pub budget: usize,
    pub overflow: bool,
    pub transient: bool, // fail only once (at the budget), then accept again
    pub failed: bool,
}
impl io::Write for BW {
    fn write(&mut self, data: &[u8]) -> io::Result<usize> {
        let mut i = 0;
        while i < data.len() {
            if self.len >= self.budget && !(self.transient && self.failed) {
                self.failed = true;
                return Err(io::Error::from(io::ErrorKind::WriteZero));
            }
            if self.len < OUTCAP {
                self.buf[self.len] = data[i];
                self.len += 1;
            } else {
                self.overflow = true;
            }
            i += 1;
        }
        Ok(data.len())
    }
    fn write_all(&mut self, data: &[u8]) -> io::Result<()> {
        self.write(data).map(|_| ())
    }
    fn flush(&mut self) -> io::Result<()> {
        Ok(())
    }
}

#[cfg(kani)]
#[kani::proof]
#[kani::unwind(5)]
pub fn c15_nq_serializer_faults() {
    let items: [[u8; 3]; NI] = kani::any();
    let named: [bool; NI] = kani::any();
    let n: usize = kani::any();
    let fault: usize = kani::any();
    let budget: usize = kani::any();
    kani::assume(n <= NI && fault <= NI && budget <= NI * STMT + 1);
    let mut src = TSrc { named, items, n, pos: 0, fault, code: kani::any() };
    let mut w = BW { buf: [0; OUTCAP], len: 0, budget, overflow: false, transient: kani::any(), failed: false };
    let r = {
        let mut ser = NqSerializer::new(&mut w);
        let r = ser.serialize_quads(&mut src).map(|_| ());
        std::mem::forget(ser);
        r
    };
    // reference text of the items before the source fault
    let good = if fault < n { fault } else { n };
    let mut exp = [0u8; NI * STMT];
    let mut el = 0usize;
    let mut starts = [0usize; NI + 1];
    let mut i = 0;
    while i < NI {
        starts[i] = el;
        if i < good {
            let t = |c: u8| POOL.as_bytes()[(c % 3) as usize];
            let txt: [u8; 17] = [b'<', t(items[i][0]), b'>', b' ', b'<', t(items[i][1]), b'>', b' ', b'<', t(items[i][2]), b'>', b' ', b'<', t(1), b'>', b'.', b'\n'];
            let mut k = 0;
            while k < 17 {
                // default-graph quads skip the " <g>" part (bytes 11..15)
                if named[i] || k < 11 || k >= 15 {
                    exp[el] = txt[k];
                    el += 1;
                }
                k += 1;
            }
        }
        i += 1;
    }
    starts[NI] = el;
    let full = el;
    let (exp_len, exp_out) = if budget < full { (budget, 2u8) } else if fault < n { (full, 1u8) } else { (full, 0u8) };
    kani::cover!(exp_out == 1 && good >= 1, "source fault after a written statement");
    kani::cover!(exp_out == 2 && named[0] && budget < 11, "writer fault inside the triple part of a named-graph quad");
    kani::cover!(exp_out == 0 && n == NI && named[0] && !named[1], "a named-graph and a default-graph quad written");
    match r {
        Ok(()) => assert!(exp_out == 0, "a fault was swallowed"),
        Err(StreamError::SourceError(SrcErr(_))) => assert!(exp_out == 1, "source error reported although the writer failed first (or nothing failed)"),
        Err(StreamError::SinkError(e)) => {
            assert!(exp_out == 2, "sink error reported although the source failed first (or nothing failed)");
            std::mem::forget(e);
        }
    }
    assert!(!w.overflow);
    assert!(w.len == exp_len, "the bytes written are not exactly the serialisation of the items before the fault (truncated at the writer's budget)");
    let mut k = 0;
    while k < NI * STMT {
        if k < w.len {
            assert!(w.buf[k] == exp[k], "written byte differs from the N-Quads serialisation of the source items");
        }
        k += 1;
    }
    if exp_out == 2 {
        // the source is not pulled beyond the statement on which the writer failed
        let mut item = 0;
        let mut j = 0;
        while j < NI {
            if budget >= starts[j + 1] && j + 1 < NI + 1 && starts[j + 1] > starts[j] {
                item = j + 1;
            }
            j += 1;
        }
        assert!(src.pos <= item + 1, "the source was pulled beyond the statement on which the writer failed");
    } else if exp_out == 1 {
        assert!(src.pos == fault + 1, "the source was pulled beyond its failing item");
    }
}
