// Shared pieces of the C03(a)/C16 escape harnesses: array writer, UTF-8 precondition, reference decoder.
use std::io;

pub const IN: usize = 4;
pub const OUT: usize = 4 * IN + 12;

pub struct ArrW {
    pub buf: [u8; OUT],
    pub len: usize,
    pub overflow: bool,
}
impl ArrW {
    pub fn new() -> Self {
        ArrW { buf: [0; OUT], len: 0, overflow: false }
    }
}
impl io::Write for ArrW {
    fn write(&mut self, data: &[u8]) -> io::Result<usize> {
        let mut i = 0;
        while i < data.len() {
            if self.len < OUT {
                self.buf[self.len] = data[i];
                self.len += 1;
            } else {
                self.overflow = true;
            }
            i += 1;
        }
        Ok(data.len())
    }
    fn write_all(&mut self, data: &[u8]) -> io::Result<()> {
        self.write(data).map(|_| ())
    }
    fn flush(&mut self) -> io::Result<()> {
        Ok(())
    }
}

/// Well-formed UTF-8 (RFC 3629 table 3-7) — lexical forms are `str`.
pub fn valid_utf8(b: &[u8]) -> bool {
    let n = b.len();
    let mut i = 0;
    while i < n {
        let c = b[i];
        let need = if c < 0x80 {
            0
        } else if c >= 0xC2 && c <= 0xDF {
            1
        } else if c >= 0xE0 && c <= 0xEF {
            2
        } else if c >= 0xF0 && c <= 0xF4 {
            3
        } else {
            return false;
        };
        if i + need >= n + 0 && need > 0 && i + need > n - 1 {
            return false;
        }
        let mut k = 1;
        while k <= need {
            let d = b[i + k];
            let (lo, hi) = if k == 1 {
                match c {
                    0xE0 => (0xA0, 0xBF),
                    0xED => (0x80, 0x9F),
                    0xF0 => (0x90, 0xBF),
                    0xF4 => (0x80, 0x8F),
                    _ => (0x80, 0xBF),
                }
            } else {
                (0x80, 0xBF)
            };
            if d < lo || d > hi {
                return false;
            }
            k += 1;
        }
        i += need + 1;
    }
    true
}

fn hexval(c: u8) -> Option<u32> {
    match c {
        b'0'..=b'9' => Some((c - b'0') as u32),
        b'a'..=b'f' => Some((c - b'a' + 10) as u32),
        b'A'..=b'F' => Some((c - b'A' + 10) as u32),
        _ => None,
    }
}

/// Decoder of the body of the W3C N-Triples/N-Quads STRING_LITERAL_QUOTE:
///   ( [^#x22#x5C#xA#xD] | ECHAR | UCHAR )*   ECHAR ::= '\' [tbnrf"'\]   UCHAR ::= '\u' HEX{4} | '\U' HEX{8}
/// Returns None if `s` is not in the language; otherwise the decoded bytes (UTF-8).
pub fn decode(s: &[u8], out: &mut [u8; OUT]) -> Option<usize> {
    let mut i = 0;
    let mut o = 0;
    while i < s.len() {
        let c = s[i];
        if c == b'"' || c == b'\n' || c == b'\r' {
            return None;
        }
        if c != b'\\' {
            if o >= OUT {
                return None;
            }
            out[o] = c;
            o += 1;
            i += 1;
            continue;
        }
        if i + 1 >= s.len() {
            return None;
        }
        let e = s[i + 1];
        let d = match e {
            b't' => 0x09,
            b'b' => 0x08,
            b'n' => 0x0A,
            b'r' => 0x0D,
            b'f' => 0x0C,
            b'"' => b'"',
            b'\'' => b'\'',
            b'\\' => b'\\',
            b'u' | b'U' => {
                let nd = if e == b'u' { 4 } else { 8 };
                if i + 2 + nd > s.len() {
                    return None;
                }
                let mut cp: u32 = 0;
                let mut k = 0;
                while k < nd {
                    cp = (cp << 4) | hexval(s[i + 2 + k])?;
                    k += 1;
                }
                if cp > 0x10FFFF || (cp >= 0xD800 && cp <= 0xDFFF) {
                    return None;
                }
                // UTF-8 encode
                let mut tmp = [0u8; 4];
                let l = if cp < 0x80 {
                    tmp[0] = cp as u8;
                    1
                } else if cp < 0x800 {
                    tmp[0] = 0xC0 | (cp >> 6) as u8;
                    tmp[1] = 0x80 | (cp & 0x3F) as u8;
                    2
                } else if cp < 0x10000 {
                    tmp[0] = 0xE0 | (cp >> 12) as u8;
                    tmp[1] = 0x80 | ((cp >> 6) & 0x3F) as u8;
                    tmp[2] = 0x80 | (cp & 0x3F) as u8;
                    3
                } else {
                    tmp[0] = 0xF0 | (cp >> 18) as u8;
                    tmp[1] = 0x80 | ((cp >> 12) & 0x3F) as u8;
                    tmp[2] = 0x80 | ((cp >> 6) & 0x3F) as u8;
                    tmp[3] = 0x80 | (cp & 0x3F) as u8;
                    4
                };
                let mut k = 0;
                while k < l {
                    if o >= OUT {
                        return None;
                    }
                    out[o] = tmp[k];
                    o += 1;
                    k += 1;
                }
                i += 2 + nd;
                continue;
            }
            _ => return None,
        };
        if o >= OUT {
            return None;
        }
        out[o] = d;
        o += 1;
        i += 2;
    }
    Some(o)
}

