// C15 — NtSerializer as the consumer of a triple stream: with a source fault at item k or a writer fault after a
// byte budget, the bytes written are exactly (a prefix of) the serialisation of the items before the fault, the
// source is not pulled beyond the failing item, and the error is blamed on the right side.
use crate::serializer::nt::NtSerializer;
use sophia_api::serializer::TripleSerializer;
use sophia_api::source::StreamError;
use sophia_api::term::{IriRef, Term, TermKind};
use sophia_api::MownStr;
use std::io;

pub const NI: usize = 2;
pub const STMT: usize = 13;
pub const OUTCAP: usize = NI * STMT + 4;
static POOL: &str = "abc";

#[derive(Clone, Copy, Debug)]
pub struct LI(pub u8);
impl Term for LI {
    type BorrowTerm<'x> = LI;
    fn kind(&self) -> TermKind {
        TermKind::Iri
    }
    fn iri(&self) -> Option<IriRef<MownStr<'_>>> {
        let s = unsafe { std::str::from_utf8_unchecked(std::slice::from_raw_parts(POOL.as_ptr().add((self.0 % 3) as usize), 1)) };
        Some(IriRef::new_unchecked_const(s).map_unchecked(MownStr::from_ref))
    }
    fn borrow_term(&self) -> LI {
        *self
    }
}

#[derive(Debug, Clone, Copy, PartialEq, Eq)]
pub struct SrcErr(pub u8);
impl std::fmt::Display for SrcErr {
    fn fmt(&self, _: &mut std::fmt::Formatter<'_>) -> std::fmt::Result {
        Ok(())
    }
}
impl std::error::Error for SrcErr {}

pub struct TSrc {
    pub items: [[u8; 3]; NI],
    pub n: usize,
    pub pos: usize,
    pub fault: usize,
    pub code: u8,
}
impl Iterator for TSrc {
    type Item = Result<[LI; 3], SrcErr>;
    fn next(&mut self) -> Option<Self::Item> {
        if self.pos >= self.n {
            return None;
        }
        let i = self.pos;
        self.pos += 1;
        if i == self.fault {
            Some(Err(SrcErr(self.code)))
        } else {
            Some(Ok([LI(self.items[i][0]), LI(self.items[i][1]), LI(self.items[i][2])]))
        }
    }
}

/// writer that fails once `budget` bytes have been accepted
pub struct BW {
    pub buf: [u8; OUTCAP],
    pub len: usize,
    pub budget: usize,
    pub overflow: bool,
}
impl io::Write for BW {
    fn write(&mut self, data: &[u8]) -> io::Result<usize> {
        let mut i = 0;
        while i < data.len() {
            if self.len >= self.budget {
                return Err(io::Error::from(io::ErrorKind::WriteZero));
            }
            if self.len < OUTCAP {
                self.buf[self.len] = data[i];
                self.len += 1;
            } else {
                self.overflow = true;
            }
            i += 1;
        }
        Ok(data.len())
    }
    fn write_all(&mut self, data: &[u8]) -> io::Result<()> {
        self.write(data).map(|_| ())
    }
    fn flush(&mut self) -> io::Result<()> {
        Ok(())
    }
}

#[cfg(kani)]
#[kani::proof]
#[kani::unwind(30)]
pub fn c15_nt_serializer_faults() {
    // one statement is 13 bytes: <a> <b> <c>.\n
    const SL: usize = 13;
    let items: [[u8; 3]; NI] = kani::any();
    let n: usize = kani::any();
    let fault: usize = kani::any();
    let budget: usize = kani::any();
    kani::assume(n <= NI && fault <= NI && budget <= NI * SL + 1);
    let src = TSrc { items, n, pos: 0, fault, code: kani::any() };
    let mut w = BW { buf: [0; OUTCAP], len: 0, budget, overflow: false };
    let mut src = src;
    let r = {
        let mut ser = NtSerializer::new(&mut w);
        let r = ser.serialize_triples(&mut src).map(|_| ());
        std::mem::forget(ser);
        r
    };
    // reference
    let good = if fault < n { fault } else { n }; // items before the source fault
    let full = good * SL; // bytes of their serialisation
    let (exp_len, exp_out) = if budget < full { (budget, 2u8) } else if fault < n { (full, 1u8) } else { (full, 0u8) };
    kani::cover!(exp_out == 1 && good >= 1, "source fault after a written statement");
    kani::cover!(exp_out == 2 && budget > SL, "writer fault inside the second statement");
    kani::cover!(exp_out == 0 && n == NI, "all statements written");
    match r {
        Ok(()) => assert!(exp_out == 0, "a fault was swallowed"),
        Err(StreamError::SourceError(SrcErr(c))) => assert!(exp_out == 1, "source error reported although the writer failed first (or nothing failed)"),
        Err(StreamError::SinkError(e)) => {
            assert!(exp_out == 2, "sink error reported although the source failed first (or nothing failed)");
            std::mem::forget(e);
        }
    }
    assert!(!w.overflow);
    assert!(w.len == exp_len, "the bytes written are not exactly the serialisation of the items before the fault (truncated at the writer's budget)");
    let mut k = 0;
    while k < NI * SL {
        if k < w.len {
            let i = k / SL;
            let j = k % SL;
            let t = |c: u8| POOL.as_bytes()[(c % 3) as usize];
            let e = match j {
                0 | 4 | 8 => b'<',
                1 => t(items[i][0]),
                5 => t(items[i][1]),
                9 => t(items[i][2]),
                2 | 6 | 10 => b'>',
                3 | 7 => b' ',
                11 => b'.',
                _ => b'\n',
            };
            assert!(w.buf[k] == e, "written byte differs from the N-Triples serialisation of the source items");
        }
        k += 1;
    }
    // the source is not pulled beyond the failing item
    if exp_out == 2 {
        assert!(src.pos <= budget / SL + 1, "the source was pulled beyond the statement on which the writer failed");
    } else if exp_out == 1 {
        assert!(src.pos == fault + 1, "the source was pulled beyond its failing item");
    }
}
