use super::c03_common::*;
// ---------------------------------------------------------------------------------------------
// The same obligation through the PUBLIC entry point write_term (stable signature), with a lean literal term.
use sophia_api::term::{IriRef, LanguageTag, Term, TermKind};
use sophia_api::MownStr;

#[derive(Debug, Clone, Copy)]
pub struct LeanLit<const N: usize> {
    pub buf: [u8; N],
    pub len: usize,
}
impl<const N: usize> Term for LeanLit<N> {
    type BorrowTerm<'x> = &'x Self;
    fn kind(&self) -> TermKind {
        TermKind::Literal
    }
    fn lexical_form(&self) -> Option<MownStr<'_>> {
        // harness precondition: buf[..len] is valid UTF-8
        Some(MownStr::from_ref(unsafe { std::str::from_utf8_unchecked(&self.buf[..self.len]) }))
    }
    fn datatype(&self) -> Option<IriRef<MownStr<'_>>> {
        Some(IriRef::new_unchecked_const("x:d").map_unchecked(MownStr::from_ref))
    }
    fn language_tag(&self) -> Option<LanguageTag<MownStr<'_>>> {
        None
    }
    fn borrow_term(&self) -> &Self {
        self
    }
}

pub const TAIL: &[u8] = b"\"^^<x:d>";

macro_rules! write_term_harness {
    ($name:ident, $n:expr) => {
        #[cfg(kani)]
        #[kani::proof]
        #[kani::unwind(20)]
        pub fn $name() {
            let data: [u8; $n] = kani::any();
            let len: usize = kani::any();
            kani::assume(len <= $n);
            kani::assume(valid_utf8(&data[..len]));
            let lit = LeanLit::<$n> { buf: data, len };
            let mut w = ArrW::new();
            let r = crate::serializer::nt::write_term(&mut w, &lit);
            assert!(r.is_ok(), "write_term failed although the writer never fails");
            assert!(!w.overflow, "output longer than expected");
            let tl = TAIL.len();
            assert!(w.len >= 1 + tl, "literal framing missing");
            assert!(w.buf[0] == b'"', "literal does not start with a quote");
            let mut k = 0;
            while k < tl {
                assert!(w.buf[w.len - tl + k] == TAIL[k], "literal does not end with \"^^<datatype>");
                k += 1;
            }
            let mut dec = [0u8; OUT];
            let got = decode(&w.buf[1..w.len - tl], &mut dec);
            kani::cover!(len == $n && w.len > len + 1 + tl, "something was escaped");
            kani::cover!(len == $n && w.len == len + 1 + tl, "nothing needed escaping");
            kani::cover!(len >= 2 && data[0] >= 0x80 && (data[len - 1] == b'\n' || data[len - 1] == b'"'), "multi-byte character followed by an escaped one");
            match got {
                None => assert!(false, "literal body is not a STRING_LITERAL_QUOTE body (raw quote/CR/LF or bad escape)"),
                Some(dl) => {
                    assert!(dl == len, "decoded length differs from the input");
                    let mut i = 0;
                    while i < $n {
                        if i < len {
                            assert!(dec[i] == data[i], "decoding the written literal does not give back the lexical form");
                        }
                        i += 1;
                    }
                }
            }
        }
    };
}
write_term_harness!(c03_write_term_2, 2);
write_term_harness!(c03_write_term_3, 3);
write_term_harness!(c03_write_term_4, 4);

// ---------------------------------------------------------------------------------------------
// write_term must escape the lexical form whatever the datatype is (ill-typed literals are legal RDF): one symbolic
// ASCII byte (or the empty string) as lexical form, datatype symbolic among xsd:string, the four "shorthand" XSD
// types and a non-XSD IRI. Oracle: the expected output prefix, written out explicitly.
#[derive(Debug, Clone, Copy)]
pub struct DtLit {
    pub buf: [u8; 1],
    pub len: usize,
    pub d: u8,
}
pub fn dt_text(d: u8) -> &'static str {
    match d {
        0 => "x:d",
        1 => "http://www.w3.org/2001/XMLSchema#integer",
        2 => "http://www.w3.org/2001/XMLSchema#decimal",
        3 => "http://www.w3.org/2001/XMLSchema#double",
        4 => "http://www.w3.org/2001/XMLSchema#boolean",
        _ => "http://www.w3.org/2001/XMLSchema#string",
    }
}
impl Term for DtLit {
    type BorrowTerm<'x> = &'x Self;
    fn kind(&self) -> TermKind {
        TermKind::Literal
    }
    fn lexical_form(&self) -> Option<MownStr<'_>> {
        Some(MownStr::from_ref(unsafe { std::str::from_utf8_unchecked(&self.buf[..self.len]) }))
    }
    fn datatype(&self) -> Option<IriRef<MownStr<'_>>> {
        Some(IriRef::new_unchecked_const(dt_text(self.d)).map_unchecked(MownStr::from_ref))
    }
    fn language_tag(&self) -> Option<LanguageTag<MownStr<'_>>> {
        None
    }
    fn borrow_term(&self) -> &Self {
        self
    }
}

#[cfg(kani)]
#[kani::proof]
#[kani::unwind(8)]
pub fn c03_write_term_datatypes() {
    let b: u8 = kani::any();
    kani::assume(b < 0x80);
    let len: usize = kani::any();
    kani::assume(len <= 1);
    let d: u8 = kani::any();
    kani::assume(d <= 5);
    let lit = DtLit { buf: [b], len, d };
    let mut w = ArrW::new();
    let r = crate::serializer::nt::write_term(&mut w, &lit);
    assert!(r.is_ok(), "write_term failed although the writer never fails");
    assert!(w.buf[0] == b'"', "literal does not start with a quote");
    let special = b == b'\n' || b == b'\r' || b == b'"' || b == b'\\';
    let q = if len == 0 {
        1
    } else if special {
        let e = match b {
            b'\n' => b'n',
            b'\r' => b'r',
            other => other,
        };
        assert!(w.buf[1] == b'\\' && w.buf[2] == e, "a character that must be escaped was written raw (or escaped wrongly)");
        3
    } else {
        assert!(w.buf[1] == b, "lexical form changed");
        2
    };
    assert!(w.buf[q] == b'"', "closing quote missing right after the lexical form");
    if d == 5 {
        assert!(w.len == q + 1 && !w.overflow, "xsd:string literal must end at the closing quote");
    } else {
        assert!(w.buf[q + 1] == b'^' && w.buf[q + 2] == b'^' && w.buf[q + 3] == b'<', "datatype marker missing");
        let t = dt_text(d).as_bytes();
        assert!(w.buf[q + 4] == t[0] && w.buf[q + 5] == t[1], "datatype IRI differs");
        if d == 0 {
            assert!(w.len == q + 8 && w.buf[q + 7] == b'>');
        }
    }
    kani::cover!(special && d == 1, "escaped character in an xsd:integer literal");
    kani::cover!(len == 0 && d == 5, "empty xsd:string");
}
