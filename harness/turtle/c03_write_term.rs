use super::c03_common::*;
// ---------------------------------------------------------------------------------------------
// The same obligation through the PUBLIC entry point write_term (stable signature), with a lean literal term.
use sophia_api::term::{IriRef, LanguageTag, Term, TermKind};
use sophia_api::MownStr;

#[derive(Debug, Clone, Copy)]
pub struct LeanLit<const N: usize> {
    pub buf: [u8; N],
    pub len: usize,
}
impl<const N: usize> Term for LeanLit<N> {
    type BorrowTerm<'x> = &'x Self;
    fn kind(&self) -> TermKind {
        TermKind::Literal
    }
    fn lexical_form(&self) -> Option<MownStr<'_>> {
        // harness precondition: buf[..len] is valid UTF-8
        Some(MownStr::from_ref(unsafe { std::str::from_utf8_unchecked(&self.buf[..self.len]) }))
    }
    fn datatype(&self) -> Option<IriRef<MownStr<'_>>> {
        Some(IriRef::new_unchecked_const("x:d").map_unchecked(MownStr::from_ref))
    }
    fn language_tag(&self) -> Option<LanguageTag<MownStr<'_>>> {
        None
    }
    fn borrow_term(&self) -> &Self {
        self
    }
}

pub const TAIL: &[u8] = b"\"^^<x:d>";

macro_rules! write_term_harness {
    ($name:ident, $n:expr) => {
        #[cfg(kani)]
        #[kani::proof]
        #[kani::unwind(20)]
        pub fn $name() {
            let data: [u8; $n] = kani::any();
            let len: usize = kani::any();
            kani::assume(len <= $n);
            kani::assume(valid_utf8(&data[..len]));
            let lit = LeanLit::<$n> { buf: data, len };
            let mut w = ArrW::new();
            let r = crate::serializer::nt::write_term(&mut w, &lit);
            assert!(r.is_ok(), "write_term failed although the writer never fails");
            assert!(!w.overflow, "output longer than expected");
            let tl = TAIL.len();
            assert!(w.len >= 1 + tl, "literal framing missing");
            assert!(w.buf[0] == b'"', "literal does not start with a quote");
            let mut k = 0;
            while k < tl {
                assert!(w.buf[w.len - tl + k] == TAIL[k], "literal does not end with \"^^<datatype>");
                k += 1;
            }
            let mut dec = [0u8; OUT];
            let got = decode(&w.buf[1..w.len - tl], &mut dec);
            kani::cover!(len == $n && w.len > len + 1 + tl, "something was escaped");
            kani::cover!(len == $n && w.len == len + 1 + tl, "nothing needed escaping");
            kani::cover!(len >= 2 && data[0] >= 0x80 && (data[len - 1] == b'\n' || data[len - 1] == b'"'), "multi-byte character followed by an escaped one");
            match got {
                None => assert!(false, "literal body is not a STRING_LITERAL_QUOTE body (raw quote/CR/LF or bad escape)"),
                Some(dl) => {
                    assert!(dl == len, "decoded length differs from the input");
                    let mut i = 0;
                    while i < $n {
                        if i < len {
                            assert!(dec[i] == data[i], "decoding the written literal does not give back the lexical form");
                        }
                        i += 1;
                    }
                }
            }
        }
    };
}
write_term_harness!(c03_write_term_2, 2);
write_term_harness!(c03_write_term_3, 3);
write_term_harness!(c03_write_term_4, 4);
