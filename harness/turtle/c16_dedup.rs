// C16 (partial) — the pretty Turtle/TriG serializer's DedupIterator (one step per statement of the dataset) must not
// re-enter itself once per skipped duplicate. Oracle: CBMC's recursion unwinding assertion on its `next` with a
// recursion bound of 1. Functional by-product: no two consecutive items are equal and nothing but duplicates is dropped.
use crate::serializer::_pretty::Dedup;

#[cfg(kani)]
#[kani::proof]
#[kani::unwind(8)]
pub fn c16_pretty_dedup_rec() {
    let items: [u8; 4] = kani::any();
    let mut it = items.iter().copied().dedup();
    let mut prev: Option<u8> = None;
    let mut n = 0usize;
    let mut k = 0;
    while k < 5 {
        match it.next() {
            Some(x) => {
                assert!(prev != Some(x), "two consecutive equal items");
                prev = Some(x);
                n += 1;
            }
            None => break,
        }
        k += 1;
    }
    let mut changes = 1usize;
    let mut i = 1;
    while i < 4 {
        if items[i] != items[i - 1] {
            changes += 1;
        }
        i += 1;
    }
    assert!(n == changes, "dedup dropped or invented an item");
    kani::cover!(n == 1, "three duplicates skipped in a row");
    kani::cover!(n == 4, "nothing skipped");
}
