// C03(a) — the N-Triples escaper is the inverse of the grammar's decoder; C16 — and does not recurse per escaped byte.
// Direct harness on the crate-private quoted_string(w, &[u8]); only injected while that signature exists.
use super::c03_common::*;
use crate::serializer::nt::quoted_string;

macro_rules! escape_harness {
    ($name:ident, $n:expr) => {
        #[cfg(kani)]
        #[kani::proof]
        #[kani::unwind(20)]
        pub fn $name() {
            let data: [u8; $n] = kani::any();
            let len: usize = kani::any();
            kani::assume(len <= $n);
            let txt = &data[..len];
            kani::assume(valid_utf8(txt));
            let mut w = ArrW::new();
            let r = quoted_string(&mut w, txt);
            assert!(r.is_ok(), "escaper failed although the writer never fails");
            assert!(!w.overflow, "escaped form longer than 4x the input");
            let mut dec = [0u8; OUT];
            let got = decode(&w.buf[..w.len], &mut dec);
            kani::cover!(len == $n && w.len > len, "something was escaped");
            kani::cover!(len == $n && w.len == len, "nothing needed escaping");
            kani::cover!(len >= 2 && txt[0] >= 0x80, "multi-byte character");
            match got {
                None => assert!(false, "output is not a STRING_LITERAL_QUOTE body (raw quote/CR/LF or bad escape)"),
                Some(dl) => {
                    assert!(dl == len, "decoded length differs from the input");
                    let mut i = 0;
                    while i < $n {
                        if i < len {
                            assert!(dec[i] == txt[i], "decoding the escaped form does not give back the input");
                        }
                        i += 1;
                    }
                }
            }
        }
    };
}
escape_harness!(c03_escape_2, 2);
escape_harness!(c03_escape_3, 3);
escape_harness!(c03_escape_4, 4);

// C16: four escaped bytes, per-function recursion bound 2 on quoted_string (oracle = recursion unwinding assertion)
#[cfg(kani)]
#[kani::proof]
#[kani::unwind(20)]
pub fn c16_quoted_string_rec() {
    let data: [u8; 4] = kani::any();
    kani::assume(valid_utf8(&data));
    let mut w = ArrW::new();
    let r = quoted_string(&mut w, &data);
    kani::cover!(w.len == 8, "four escaped bytes processed");
    assert!(r.is_ok());
}


