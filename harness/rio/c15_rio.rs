// C15 — the Rio adapter (StrictRioTripleSource / StrictRioQuadSource) converts parser errors to SourceError and
// callback errors to SinkError, delivers exactly the items before the fault and reports Ok(false) at the end.
// The parser is a harness implementation of rio_api's TriplesParser/QuadsParser (an environment stub honouring the
// trait contract): it yields up to `chunk` statements per parse_step and fails at a symbolic position.
use crate::parser::{StrictRioQuadSource, StrictRioTripleSource};
use rio_api::model::{GraphName, NamedNode, Quad, Subject, Term, Triple};
use rio_api::parser::{QuadsParser, TriplesParser};
use sophia_api::source::{Source, StreamError};
use std::fmt;

pub const N: usize = 3;
static NAMES: &str = "abc";

#[derive(Debug, Clone, Copy, PartialEq, Eq)]
pub struct PErr(pub u8);
impl fmt::Display for PErr {
    fn fmt(&self, _: &mut fmt::Formatter<'_>) -> fmt::Result {
        Ok(())
    }
}
impl std::error::Error for PErr {}
#[derive(Debug, Clone, Copy, PartialEq, Eq)]
pub struct KErr(pub u8);
impl fmt::Display for KErr {
    fn fmt(&self, _: &mut fmt::Formatter<'_>) -> fmt::Result {
        Ok(())
    }
}
impl std::error::Error for KErr {}

pub struct HP {
    pub n: usize,
    pub pos: usize,
    pub fault: usize,
    pub code: u8,
    pub chunk: usize,
}
fn name(i: usize) -> &'static str {
    unsafe { std::str::from_utf8_unchecked(std::slice::from_raw_parts(NAMES.as_ptr().add(i % 3), 1)) }
}
impl TriplesParser for HP {
    type Error = PErr;
    fn parse_step<E: From<PErr>>(&mut self, on_triple: &mut impl FnMut(Triple<'_>) -> Result<(), E>) -> Result<(), E> {
        let mut c = 0;
        while c < self.chunk && self.pos < self.n {
            let i = self.pos;
            self.pos += 1;
            if i == self.fault {
                return Err(PErr(self.code).into());
            }
            let nn = NamedNode { iri: name(i) };
            on_triple(Triple { subject: Subject::NamedNode(nn), predicate: nn, object: Term::NamedNode(nn) })?;
            c += 1;
        }
        Ok(())
    }
    fn is_end(&self) -> bool {
        self.pos >= self.n
    }
}
impl QuadsParser for HP {
    type Error = PErr;
    fn parse_step<E: From<PErr>>(&mut self, on_quad: &mut impl FnMut(Quad<'_>) -> Result<(), E>) -> Result<(), E> {
        let mut c = 0;
        while c < self.chunk && self.pos < self.n {
            let i = self.pos;
            self.pos += 1;
            if i == self.fault {
                return Err(PErr(self.code).into());
            }
            let nn = NamedNode { iri: name(i) };
            on_quad(Quad { subject: Subject::NamedNode(nn), predicate: nn, object: Term::NamedNode(nn), graph_name: Some(GraphName::NamedNode(nn)) })?;
            c += 1;
        }
        Ok(())
    }
    fn is_end(&self) -> bool {
        self.pos >= self.n
    }
}

#[cfg(kani)]
pub fn any_hp() -> HP {
    let n: usize = kani::any();
    let fault: usize = kani::any();
    let chunk: usize = kani::any();
    kani::assume(n <= N && fault <= N && chunk >= 1 && chunk <= N);
    HP { n, pos: 0, fault, code: kani::any(), chunk }
}

#[derive(Clone, Copy, PartialEq, Eq)]
pub enum Out {
    Done,
    Src(u8),
    Snk(u8),
}

pub fn reference(n: usize, fault: usize, scode: u8, kfault: usize, kcode: u8) -> (usize, Out) {
    let mut calls = 0;
    let mut i = 0;
    while i < n {
        if i == fault {
            return (calls, Out::Src(scode));
        }
        calls += 1;
        if calls - 1 == kfault {
            return (calls, Out::Snk(kcode));
        }
        i += 1;
    }
    (calls, Out::Done)
}

macro_rules! rio_harness {
    ($name:ident, $wrap:ident, $first:expr, $ty:ty) => {
        #[cfg(kani)]
        #[kani::proof]
        #[kani::unwind(6)]
        pub fn $name() {
            let hp = any_hp();
            let (n, fault, scode) = (hp.n, hp.fault, hp.code);
            let kfault: usize = kani::any();
            let kcode: u8 = kani::any();
            kani::assume(kfault <= N + 1);
            let stepwise: bool = kani::any();
            let mut src = $wrap(hp);
            let mut calls = 0usize;
            let mut order_ok = true;
            let mut sink = |t: crate::model::Trusted<$ty>| -> Result<(), KErr> {
                let b: u8 = $first(t);
                if b != NAMES.as_bytes()[calls % 3] {
                    order_ok = false;
                }
                let c = calls;
                calls += 1;
                if c == kfault { Err(KErr(kcode)) } else { Ok(()) }
            };
            let got = if !stepwise {
                match src.try_for_each_item(&mut sink) {
                    Ok(()) => Out::Done,
                    Err(StreamError::SourceError(PErr(c))) => Out::Src(c),
                    Err(StreamError::SinkError(KErr(c))) => Out::Snk(c),
                }
            } else {
                let mut steps = 0;
                loop {
                    if steps > N + 1 {
                        break Out::Done;
                    }
                    steps += 1;
                    match src.try_for_some_item(&mut sink) {
                        Ok(true) => {}
                        Ok(false) => break Out::Done,
                        Err(StreamError::SourceError(PErr(c))) => break Out::Src(c),
                        Err(StreamError::SinkError(KErr(c))) => break Out::Snk(c),
                    }
                }
            };
            let (ecalls, eout) = reference(n, fault, scode, kfault, kcode);
            kani::cover!(matches!(eout, Out::Src(_)) && ecalls > 0, "parser error after some statements");
            kani::cover!(matches!(eout, Out::Snk(_)) && ecalls > 1, "callback error after some statements");
            kani::cover!(matches!(eout, Out::Done) && ecalls == N, "all statements delivered");
            assert!(got == eout, "outcome (side and payload of the error) differs from reference");
            assert!(calls == ecalls, "number of statements consumed differs from reference");
            assert!(order_ok, "statements delivered out of order");
        }
    };
}
pub fn first_t(t: crate::model::Trusted<Triple<'_>>) -> u8 {
    match t.0.subject {
        Subject::NamedNode(nn) => nn.iri.as_bytes()[0],
        _ => 0,
    }
}
pub fn first_q(q: crate::model::Trusted<Quad<'_>>) -> u8 {
    match q.0.subject {
        Subject::NamedNode(nn) => nn.iri.as_bytes()[0],
        _ => 0,
    }
}
rio_harness!(c15_rio_triples, StrictRioTripleSource, first_t, Triple<'_>);
rio_harness!(c15_rio_quads, StrictRioQuadSource, first_q, Quad<'_>);
