// C05 (partial) — for_each_permutation_of enumerates every arrangement exactly once.
// The n-degree hash of RDFC-1.0 is only independent of input order if no arrangement of the
// related blank nodes is skipped or repeated.
use crate::_permutations::for_each_permutation_of;

pub const MAXP: usize = 24;

pub struct Rec<const N: usize> {
    pub got: [[u8; N]; MAXP],
    pub calls: usize,
    pub fail_at: usize,
    pub overflow: bool,
}

pub fn record<const N: usize>(r: &mut Rec<N>, p: &[u8]) -> Result<(), u8> {
    if p.len() != N {
        r.overflow = true;
        return Ok(());
    }
    if r.calls < MAXP {
        let mut i = 0;
        while i < N {
            r.got[r.calls][i] = p[i];
            i += 1;
        }
    } else {
        r.overflow = true;
    }
    let c = r.calls;
    r.calls += 1;
    if c == r.fail_at { Err(c as u8) } else { Ok(()) }
}

pub const fn fact(n: usize) -> usize {
    if n <= 1 { 1 } else { n * fact(n - 1) }
}

#[cfg(kani)]
pub fn distinct<const N: usize>() -> [u8; N] {
    let v: [u8; N] = kani::any();
    let mut i = 0;
    while i < N {
        let mut j = i + 1;
        while j < N {
            kani::assume(v[i] != v[j]);
            j += 1;
        }
        i += 1;
    }
    v
}

pub fn check_all<const N: usize>(orig: &[u8; N], r: &Rec<N>, res: Result<(), u8>) {
    let total = fact(N);
    assert!(!r.overflow, "callback received a slice of the wrong length or was called too often");
    if r.fail_at < total {
        // error propagates, carries the callback's value, and stops the enumeration
        assert!(res == Err(r.fail_at as u8), "callback error not propagated");
        assert!(r.calls == r.fail_at + 1, "enumeration continued after the callback failed");
    } else {
        assert!(res == Ok(()), "spurious error");
        assert!(r.calls == total, "number of arrangements is not n!");
    }
    // every delivered arrangement is a permutation of the input, all pairwise different
    let mut a = 0;
    while a < MAXP {
        if a < r.calls {
            let mut i = 0;
            while i < N {
                let mut found = false;
                let mut j = 0;
                while j < N {
                    if r.got[a][j] == orig[i] {
                        found = true;
                    }
                    j += 1;
                }
                assert!(found, "an arrangement is not a permutation of the input");
                i += 1;
            }
            let mut b = a + 1;
            while b < MAXP {
                if b < r.calls {
                    let mut same = true;
                    let mut i = 0;
                    while i < N {
                        if r.got[a][i] != r.got[b][i] {
                            same = false;
                        }
                        i += 1;
                    }
                    assert!(!same, "an arrangement was delivered twice");
                }
                b += 1;
            }
        }
        a += 1;
    }
}

macro_rules! perm_harness {
    ($name:ident, $n:expr, $unwind:expr) => {
        #[cfg(kani)]
        #[kani::proof]
        #[kani::unwind($unwind)]
        pub fn $name() {
            let orig: [u8; $n] = distinct::<$n>();
            let mut v = orig;
            let fail_at: usize = kani::any();
            kani::assume(fail_at <= fact($n));
            let mut r = Rec::<$n> { got: [[0; $n]; MAXP], calls: 0, fail_at, overflow: false };
            let res = for_each_permutation_of(&mut v, |p| record(&mut r, p));
            kani::cover!(fail_at == fact($n) && r.calls == fact($n), "full enumeration");
            kani::cover!(fail_at + 1 < fact($n) || $n == 1, "callback fails before the end");
            check_all(&orig, &r, res);
        }
    };
}

perm_harness!(c05_perm_1, 1, 26);
perm_harness!(c05_perm_2, 2, 26);
perm_harness!(c05_perm_3, 3, 26);
perm_harness!(c05_perm_4, 4, 26);

#[cfg(kani)]
#[kani::proof]
pub fn c05_perm_empty() {
    let mut v: [u8; 0] = [];
    let mut calls = 0u8;
    let res: Result<(), u8> = for_each_permutation_of(&mut v, |_p| {
        calls += 1;
        Ok(())
    });
    assert!(res == Ok(()));
    assert!(calls == 0, "empty input has no arrangement to deliver (the caller handles the empty case)");
}


// ---- rank-based variant (cheaper: no pairwise comparison): each delivered arrangement is mapped to its
// lexicographic rank relative to the input order; every rank must be hit at most once and exactly n! calls made.
pub struct RankRec<const N: usize, const F: usize> {
    pub orig: [u8; N],
    pub seen: [bool; F],
    pub calls: usize,
    pub fail_at: usize,
    pub bad: bool,
}
pub fn rank_record<const N: usize, const F: usize>(r: &mut RankRec<N, F>, p: &[u8]) -> Result<(), u8> {
    if p.len() != N {
        r.bad = true;
        return Ok(());
    }
    // position of each delivered element in the original order
    let mut idx = [0usize; N];
    let mut i = 0;
    while i < N {
        let mut found = N;
        let mut j = 0;
        while j < N {
            if r.orig[j] == p[i] {
                found = j;
            }
            j += 1;
        }
        if found == N {
            r.bad = true; // not an element of the input
            return Ok(());
        }
        idx[i] = found;
        i += 1;
    }
    // Lehmer code -> rank (idx is a permutation of 0..N iff no rank collision / duplicates are caught by `seen`)
    let mut rank = 0usize;
    let mut i = 0;
    while i < N {
        let mut smaller = 0;
        let mut j = i + 1;
        while j < N {
            if idx[j] < idx[i] {
                smaller += 1;
            }
            if idx[j] == idx[i] {
                r.bad = true; // an element delivered twice in one arrangement
            }
            j += 1;
        }
        rank = rank * (N - i) + smaller;
        i += 1;
    }
    if rank >= F || r.seen[rank] {
        r.bad = true; // an arrangement delivered twice
    } else {
        r.seen[rank] = true;
    }
    let c = r.calls;
    r.calls += 1;
    if c == r.fail_at { Err(c as u8) } else { Ok(()) }
}

macro_rules! rank_harness {
    ($name:ident, $n:expr, $f:expr, $unwind:expr) => {
        #[cfg(kani)]
        #[kani::proof]
        #[kani::unwind($unwind)]
        pub fn $name() {
            let orig: [u8; $n] = distinct::<$n>();
            let mut v = orig;
            let fail_at: usize = kani::any();
            kani::assume(fail_at <= $f);
            let mut r = RankRec::<$n, $f> { orig, seen: [false; $f], calls: 0, fail_at, bad: false };
            let res = for_each_permutation_of(&mut v, |p| rank_record(&mut r, p));
            kani::cover!(fail_at == $f && r.calls == $f, "full enumeration");
            assert!(!r.bad, "an arrangement is not a permutation of the input, or was delivered twice");
            if fail_at < $f {
                assert!(res == Err(fail_at as u8), "callback error not propagated");
                assert!(r.calls == fail_at + 1, "enumeration continued after the callback failed");
            } else {
                assert!(res == Ok(()), "spurious error");
                assert!(r.calls == $f, "number of arrangements is not n!");
            }
        }
    };
}
rank_harness!(c05_rank_4, 4, 24, 26);
rank_harness!(c05_rank_5, 5, 120, 122);
rank_harness!(c05_rank_6, 6, 720, 722);
