// C02 — GenericLiteral's own PartialEq / PartialOrd / Ord / Hash agree with the implementation-independent
// Term::eq / Term::cmp / Term::hash ("never on the Rust type holding it").
use crate::GenericLiteral;
use sophia_api::term::{IriRef, LanguageTag, Term};
use std::cmp::Ordering;
use std::hash::{Hash, Hasher};

static LEX: &str = "ab";
static DT: &str = "ax"; // "a" sorts before, "x" after rdf:langString's IRI
static TAGS: &str = "enENfr";

fn sub(s: &'static str, i: usize, n: usize) -> &'static str {
    unsafe { std::str::from_utf8_unchecked(std::slice::from_raw_parts(s.as_ptr().add(i), n)) }
}

#[cfg(kani)]
fn any_typed() -> GenericLiteral<&'static str> {
    let l: u8 = kani::any();
    let x: u8 = kani::any();
    kani::assume(l < 2 && x < 2);
    GenericLiteral::Typed(sub(LEX, l as usize, 1), IriRef::new_unchecked_const(sub(DT, x as usize, 1)))
}
#[cfg(kani)]
fn any_tagged() -> GenericLiteral<&'static str> {
    let l: u8 = kani::any();
    let x: u8 = kani::any();
    kani::assume(l < 2 && x < 3);
    GenericLiteral::LanguageString(sub(LEX, l as usize, 1), LanguageTag::new_unchecked_const(sub(TAGS, 2 * x as usize, 2)))
}
#[cfg(kani)]
fn any_lit() -> GenericLiteral<&'static str> {
    if kani::any() { any_typed() } else { any_tagged() }
}

pub struct RecH {
    pub buf: [u8; 96],
    pub n: usize,
}
impl Hasher for RecH {
    fn finish(&self) -> u64 {
        0
    }
    fn write(&mut self, bytes: &[u8]) {
        let mut i = 0;
        while i < bytes.len() {
            if self.n < 96 {
                self.buf[self.n] = bytes[i];
                self.n += 1;
            }
            i += 1;
        }
    }
}

macro_rules! consistent_harness {
    ($name:ident, $a:ident, $b:ident) => {
        #[cfg(kani)]
        #[kani::proof]
        #[kani::unwind(8)]
        pub fn $name() {
            let a = $a();
            let b = $b();
            let te = Term::eq(&a, &b);
            let tc = Term::cmp(&a, &b);
            assert!((a == b) == te, "GenericLiteral's == differs from Term::eq");
            assert!(Ord::cmp(&a, &b) == tc, "GenericLiteral's Ord::cmp differs from Term::cmp");
            assert!(PartialOrd::partial_cmp(&a, &b) == Some(tc), "GenericLiteral's partial_cmp differs from Term::cmp");
            assert!((tc == Ordering::Equal) == te, "cmp is Equal for different literals or not Equal for equal ones");
            assert!(Ord::cmp(&b, &a) == tc.reverse(), "GenericLiteral's Ord::cmp is not antisymmetric");
            kani::cover!(te, "equal literals");
            kani::cover!(!te, "different literals");
        }
    };
}
consistent_harness!(c02_generic_typed_typed, any_typed, any_typed);
consistent_harness!(c02_generic_typed_tagged, any_typed, any_tagged);
consistent_harness!(c02_generic_tagged_tagged, any_tagged, any_tagged);

#[cfg(kani)]
#[kani::proof]
#[kani::unwind(8)]
pub fn c02_generic_literal_hash() {
    let a = any_lit();
    let mut h1 = RecH { buf: [0; 96], n: 0 };
    let mut h2 = RecH { buf: [0; 96], n: 0 };
    Hash::hash(&a, &mut h1);
    Term::hash(&a, &mut h2);
    assert!(h1.n == h2.n, "GenericLiteral's Hash feeds other data than Term::hash");
    let mut i = 0;
    while i < 96 {
        if i < h1.n {
            assert!(h1.buf[i] == h2.buf[i], "GenericLiteral's Hash feeds other data than Term::hash");
        }
        i += 1;
    }
}
