// C15 on the real stores: insert_all / remove_all (and add_to_graph) with a source fault or a sink fault
// (term index full) at a symbolic position: the returned count, the blamed side and — through EVERY index —
// the content of the store must be those of "exactly the items before the fault".
use super::c01_store::*;
use super::vt::*;
use crate::dataset::{GenericFastDataset, GenericLightDataset};
use crate::graph::{GenericFastGraph, GenericLightGraph};
use sophia_api::dataset::{Dataset, MutableDataset};
use sophia_api::graph::{Graph, MutableGraph};
use sophia_api::source::{SinkError, SourceError, StreamError};
use sophia_api::term::matcher::Any;

#[derive(Debug, Clone, Copy, PartialEq, Eq)]
pub struct SrcErr(pub u8);
impl std::fmt::Display for SrcErr {
    fn fmt(&self, _: &mut std::fmt::Formatter<'_>) -> std::fmt::Result {
        Ok(())
    }
}
impl std::error::Error for SrcErr {}

pub struct TIter {
    pub items: [Q; K],
    pub pos: usize,
    pub fault: usize,
    pub code: u8,
}
impl Iterator for TIter {
    type Item = Result<[VT; 3], SrcErr>;
    fn next(&mut self) -> Option<Self::Item> {
        if self.pos >= K {
            return None;
        }
        let i = self.pos;
        self.pos += 1;
        if i == self.fault {
            Some(Err(SrcErr(self.code)))
        } else {
            let q = self.items[i];
            Some(Ok([tcode(q.s), tcode(q.p), tcode(q.o)]))
        }
    }
}
pub struct QIter(pub TIter);
impl Iterator for QIter {
    type Item = Result<([VT; 3], Option<VT>), SrcErr>;
    fn next(&mut self) -> Option<Self::Item> {
        if self.0.pos >= K {
            return None;
        }
        let i = self.0.pos;
        self.0.pos += 1;
        if i == self.0.fault {
            Some(Err(SrcErr(self.0.code)))
        } else {
            let q = self.0.items[i];
            Some(Ok(([tcode(q.s), tcode(q.p), tcode(q.o)], gname(q.g))))
        }
    }
}

#[cfg(kani)]
pub fn any_titer(graph: bool) -> TIter {
    let mut items = [Q { s: 0, p: 0, o: 0, g: 0 }; K];
    let mut i = 0;
    while i < K {
        items[i] = any_q();
        if graph {
            items[i].g = 0;
        }
        i += 1;
    }
    let fault: usize = kani::any();
    kani::assume(fault <= K); // == K: no source fault
    TIter { items, pos: 0, fault, code: kani::any() }
}

/// reference: walk the items; stop at the source fault or at the first item that needs the refused term code
pub fn reference(it: &TIter, full: u8, m: &mut Model) -> (usize, u8) {
    // returns (count of effective insertions, outcome: 0 = Ok, 1 = SourceError, 2 = SinkError)
    let mut count = 0;
    let mut known = [false; NCODES as usize];
    let mut i = 0;
    while i < K {
        if i == it.fault {
            return (count, 1);
        }
        let q = it.items[i];
        let codes = [tcode(q.s).0, tcode(q.p).0, tcode(q.o).0];
        let mut j = 0;
        while j < 3 {
            if codes[j] == full && !known[codes[j] as usize] {
                return (count, 2);
            }
            known[codes[j] as usize] = true;
            j += 1;
        }
        if let Some(g) = gname(q.g) {
            if g.0 == full && !known[g.0 as usize] {
                return (count, 2);
            }
            known[g.0 as usize] = true;
        }
        if !m.get(q) {
            m.set(q, true);
            count += 1;
        }
        i += 1;
    }
    (count, 0)
}

#[cfg(kani)]
pub fn any_full() -> u8 {
    let full: u8 = kani::any();
    kani::assume(full == 0 || full == 1 || full == 6 || full == 3 || full == 4 || full == NCODES);
    full
}

macro_rules! graph_insert_all {
    ($name:ident, $G:ty, $sp:expr, $pp:expr, $op:expr) => {
        #[cfg(kani)]
        #[kani::proof]
        #[kani::unwind(4)]
        pub fn $name() {
            let mut g = <$G>::new();
            let mut m = Model::new();
            let src = any_titer(true);
            let full = any_full();
            let (ecount, eout) = reference(&src, full, &mut m);
            unsafe { FULL_FOR = full; }
            let r = g.insert_all(src);
            unsafe { FULL_FOR = NCODES; }
            kani::cover!(eout == 1 && ecount >= 1, "source fault after an effective insertion");
            kani::cover!(eout == 2 && ecount >= 1, "sink fault (index full) after an effective insertion");
            kani::cover!(eout == 0 && ecount == K, "all items inserted");
            match r {
                Ok(n) => assert!(eout == 0 && n == ecount, "insert_all: wrong count or a fault was swallowed"),
                Err(SourceError(SrcErr(c))) => assert!(eout == 1, "source error reported although the source did not fail first"),
                Err(SinkError(_)) => assert!(eout == 2, "sink error reported although the store did not fail first"),
            }
            gr_query!(g, &m, $sp, $pp, $op);
            std::mem::forget(g);
        }
    };
}
graph_insert_all!(c15_fg_insert_all_p, GenericFastGraph<VTI>, PAny, PConst(any_t()), PAny);
graph_insert_all!(c15_fg_insert_all_o, GenericFastGraph<VTI>, PAny, PAny, PConst(any_t()));
graph_insert_all!(c15_fg_insert_all_s, GenericFastGraph<VTI>, PConst(any_t()), PAny, PAny);
graph_insert_all!(c15_lg_insert_all, GenericLightGraph<VTI>, PAny, PAny, PAny);

macro_rules! dataset_insert_all {
    ($name:ident, $D:ty, $sp:expr, $pp:expr, $op:expr, $gp:expr) => {
        #[cfg(kani)]
        #[kani::proof]
        #[kani::unwind(4)]
        pub fn $name() {
            let mut d = <$D>::new();
            let mut m = Model::new();
            let src = any_titer(false);
            let full = any_full();
            let (ecount, eout) = reference(&src, full, &mut m);
            unsafe { FULL_FOR = full; }
            let r = d.insert_all(QIter(src));
            unsafe { FULL_FOR = NCODES; }
            kani::cover!(eout == 1 && ecount >= 1, "source fault after an effective insertion");
            kani::cover!(eout == 2 && ecount >= 1, "sink fault (index full) after an effective insertion");
            kani::cover!(eout == 0 && ecount == K, "all items inserted");
            match r {
                Ok(n) => assert!(eout == 0 && n == ecount, "insert_all: wrong count or a fault was swallowed"),
                Err(SourceError(SrcErr(c))) => assert!(eout == 1, "source error reported although the source did not fail first"),
                Err(SinkError(_)) => assert!(eout == 2, "sink error reported although the store did not fail first"),
            }
            ds_query!(d, &m, $sp, $pp, $op, $gp);
            std::mem::forget(d);
        }
    };
}
dataset_insert_all!(c15_ld_insert_all, GenericLightDataset<VTI>, PAny, PAny, PAny, PAny);
dataset_insert_all!(c15_fd_insert_all_o, GenericFastDataset<VTI>, PAny, PAny, PConst(any_t()), PAny);
dataset_insert_all!(c15_fd_insert_all_pg, GenericFastDataset<VTI>, PAny, PConst(any_t()), PAny, GConst(any_g()));

// remove_all: K symbolic insertions first, then a faulty stream of K symbolic removals
pub fn reference_remove(it: &TIter, m: &mut Model) -> (usize, u8) {
    let mut count = 0;
    let mut i = 0;
    while i < K {
        if i == it.fault {
            return (count, 1);
        }
        let q = it.items[i];
        if m.get(q) {
            m.set(q, false);
            count += 1;
        }
        i += 1;
    }
    (count, 0)
}

#[cfg(kani)]
#[kani::proof]
#[kani::unwind(4)]
pub fn c15_lg_remove_all() {
    let mut g = <GenericLightGraph<VTI>>::new();
    let mut m = Model::new();
    let mut i = 0;
    while i < K {
        let mut q = any_q();
        q.g = 0;
        gr_apply(&mut g, &mut m, true, q);
        i += 1;
    }
    let src = any_titer(true);
    let (ecount, eout) = reference_remove(&src, &mut m);
    let r = g.remove_all(src);
    kani::cover!(eout == 1 && ecount >= 1, "source fault after an effective removal");
    kani::cover!(eout == 0 && ecount == K, "all items removed");
    match r {
        Ok(n) => assert!(eout == 0 && n == ecount, "remove_all: wrong count or a fault was swallowed"),
        Err(SourceError(SrcErr(c))) => assert!(eout == 1, "source error reported although the source did not fail first"),
        Err(SinkError(_)) => assert!(false, "sink error although the store cannot fail on removal"),
    }
    gr_query!(g, &m, PAny, PAny, PAny);
    std::mem::forget(g);
}

#[cfg(kani)]
#[kani::proof]
#[kani::unwind(4)]
pub fn c15_ld_remove_all() {
    let mut d = <GenericLightDataset<VTI>>::new();
    let mut m = Model::new();
    let mut i = 0;
    while i < K {
        let q = any_q();
        ds_apply(&mut d, &mut m, true, q);
        i += 1;
    }
    let src = any_titer(false);
    let (ecount, eout) = reference_remove(&src, &mut m);
    let r = d.remove_all(QIter(src));
    kani::cover!(eout == 1 && ecount >= 1, "source fault after an effective removal");
    kani::cover!(eout == 0 && ecount == K, "all items removed");
    match r {
        Ok(n) => assert!(eout == 0 && n == ecount, "remove_all: wrong count or a fault was swallowed"),
        Err(SourceError(SrcErr(c))) => assert!(eout == 1, "source error reported although the source did not fail first"),
        Err(SinkError(_)) => assert!(false, "sink error although the store cannot fail on removal"),
    }
    ds_query!(d, &m, PAny, PAny, PAny, PAny);
    std::mem::forget(d);
}

// CollectibleGraph / CollectibleDataset::from_*_source: a faulty source gives Err(SourceError), a refused term gives
// Err(SinkError), otherwise the collected store holds exactly the items.
use sophia_api::dataset::CollectibleDataset;
use sophia_api::graph::CollectibleGraph;

macro_rules! collect_graph {
    ($name:ident, $G:ty) => {
        #[cfg(kani)]
        #[kani::proof]
        #[kani::unwind(4)]
        pub fn $name() {
            let mut m = Model::new();
            let src = any_titer(true);
            let full = any_full();
            let (_ecount, eout) = reference(&src, full, &mut m);
            unsafe { FULL_FOR = full; }
            let r = <$G>::from_triple_source(src);
            unsafe { FULL_FOR = NCODES; }
            kani::cover!(eout == 0, "collected");
            kani::cover!(eout == 1, "source fault");
            kani::cover!(eout == 2, "sink fault");
            match r {
                Ok(g) => {
                    assert!(eout == 0, "a fault was swallowed while collecting");
                    gr_query!(g, &m, PAny, PAny, PAny);
                    std::mem::forget(g);
                }
                Err(SourceError(_)) => assert!(eout == 1, "source error reported although the source did not fail first"),
                Err(SinkError(_)) => assert!(eout == 2, "sink error reported although the store did not fail first"),
            }
        }
    };
}
collect_graph!(c15_lg_collect, GenericLightGraph<VTI>);
collect_graph!(c15_fg_collect, GenericFastGraph<VTI>);

#[cfg(kani)]
#[kani::proof]
#[kani::unwind(4)]
pub fn c15_ld_collect() {
    let mut m = Model::new();
    let src = any_titer(false);
    let full = any_full();
    let (_ecount, eout) = reference(&src, full, &mut m);
    unsafe { FULL_FOR = full; }
    let r = <GenericLightDataset<VTI>>::from_quad_source(QIter(src));
    unsafe { FULL_FOR = NCODES; }
    kani::cover!(eout == 0, "collected");
    kani::cover!(eout == 1, "source fault");
    kani::cover!(eout == 2, "sink fault");
    match r {
        Ok(d) => {
            assert!(eout == 0, "a fault was swallowed while collecting");
            ds_query!(d, &m, PAny, PAny, PAny, PAny);
            std::mem::forget(d);
        }
        Err(SourceError(_)) => assert!(eout == 1, "source error reported although the source did not fail first"),
        Err(SinkError(_)) => assert!(eout == 2, "sink error reported although the store did not fail first"),
    }
}
