// C16 (partial) — recursion depth of the matching iterators must not grow with the number of rows skipped.
// Each harness builds a store of 3 rows, selects one matching-iterator type through the pattern shape, uses a
// residual matcher that rejects every row, and steps the iterator. The *oracle* is CBMC's recursion unwinding
// assertion for that iterator's `next` with a per-function recursion bound of 2 (--unwindset): it holds iff no
// input makes `next` re-enter itself for every skipped row. The loop form has no such assertion.
use super::vt::*;
use crate::dataset::{GenericFastDataset, GenericLightDataset};
use crate::graph::{GenericFastGraph, GenericLightGraph};
use sophia_api::dataset::{Dataset, MutableDataset};
use sophia_api::graph::{Graph, MutableGraph};
use sophia_api::term::matcher::{Any, Not};
use sophia_api::term::TermKind;

// rows: (a, b, o_i) for three different objects; everything is an IRI; the residual matcher on the
// object position is TermKind::BlankNode, which rejects all three rows.

#[cfg(kani)]
fn objs() -> [VT; 3] {
    [VT(2), VT(3), VT(4)]
}

macro_rules! graph_harness {
    ($name:ident, $G:ty, $sm:expr) => {
        #[cfg(kani)]
        #[kani::proof]
        #[kani::unwind(8)]
        pub fn $name() {
            let mut g = <$G>::new();
            for o in objs() {
                g.insert(VT(0), VT(1), o).unwrap();
            }
            let mut it = g.triples_matching($sm, Any, TermKind::BlankNode);
            let first = it.next();
            kani::cover!(first.is_none(), "three rows skipped, iterator exhausted");
            assert!(first.is_none());
            std::mem::forget(it);
        }
    };
}
graph_harness!(c16_light_graph_spo, GenericLightGraph<VTI>, Any);
graph_harness!(c16_fast_graph_spo, GenericFastGraph<VTI>, Any);
graph_harness!(c16_light_graph_bc, GenericLightGraph<VTI>, [VT(0)]);
graph_harness!(c16_fast_graph_bc, GenericFastGraph<VTI>, [VT(0)]);

macro_rules! dataset_harness {
    ($name:ident, $D:ty, $sm:expr, $gm:expr) => {
        #[cfg(kani)]
        #[kani::proof]
        #[kani::unwind(8)]
        pub fn $name() {
            let mut d = <$D>::new();
            for o in objs() {
                d.insert(VT(0), VT(1), o, Some(VT(5))).unwrap();
            }
            let mut it = d.quads_matching($sm, Any, TermKind::BlankNode, $gm);
            let first = it.next();
            kani::cover!(first.is_none(), "three rows skipped, iterator exhausted");
            assert!(first.is_none());
            std::mem::forget(it);
        }
    };
}
dataset_harness!(c16_light_dataset_gspo, GenericLightDataset<VTI>, Any, Any);
dataset_harness!(c16_fast_dataset_gspo, GenericFastDataset<VTI>, Any, Any);
dataset_harness!(c16_light_dataset_bcd, GenericLightDataset<VTI>, Any, [Some(VT(5))]);
dataset_harness!(c16_fast_dataset_bcd, GenericFastDataset<VTI>, Any, [Some(VT(5))]);
dataset_harness!(c16_light_dataset_cd, GenericLightDataset<VTI>, [VT(0)], [Some(VT(5))]);
dataset_harness!(c16_fast_dataset_cd, GenericFastDataset<VTI>, [VT(0)], [Some(VT(5))]);
