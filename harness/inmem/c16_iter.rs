// C16 (partial) — recursion depth of the matching iterators must not grow with the number of rows skipped.
// Each harness builds a store of 3 rows, selects one matching-iterator type through the pattern shape, uses a
// residual matcher that rejects every row, and steps the iterator. The *oracle* is CBMC's recursion unwinding
// assertion for that iterator's `next` with a per-function recursion bound of 2 (--unwindset): it holds iff no
// input makes `next` re-enter itself for every skipped row. The loop form has no such assertion.
use super::vt::*;
use crate::dataset::{GenericFastDataset, GenericLightDataset};
use crate::graph::{GenericFastGraph, GenericLightGraph};
use sophia_api::dataset::{Dataset, MutableDataset};
use sophia_api::graph::{Graph, MutableGraph};
use sophia_api::term::matcher::{Any, Not};
use sophia_api::term::TermKind;

// rows: three rows that differ in EVERY non-constant position (so that each cached-flag refresh site is exercised);
// every term is an IRI. Each residual position gets a TermKind matcher whose kind is symbolic: BlankNode rejects all
// rows at that position, Iri accepts all — so whichever `continue`/tail-call site skips a row, a recursive
// implementation re-enters `next` once per skipped row and violates the recursion bound.

#[cfg(kani)]
fn kind() -> TermKind {
    if kani::any() { TermKind::BlankNode } else { TermKind::Iri }
}

macro_rules! graph_harness {
    ($name:ident, $G:ty, $sm:expr, $svar:expr) => {
        #[cfg(kani)]
        #[kani::proof]
        #[kani::unwind(8)]
        pub fn $name() {
            let mut g = <$G>::new();
            // subjects vary only when the subject is not the constant of the pattern
            let rows: [[u8; 3]; 3] = if $svar { [[0, 1, 2], [1, 2, 3], [2, 3, 4]] } else { [[0, 1, 2], [0, 2, 3], [0, 3, 4]] };
            for r in rows {
                g.insert(VT(r[0]), VT(r[1]), VT(r[2])).unwrap();
            }
            let (kp, ko) = (kind(), kind());
            let mut it = g.triples_matching($sm, kp, ko);
            let first = it.next();
            kani::cover!(first.is_none(), "three rows skipped, iterator exhausted");
            kani::cover!(first.is_some(), "a row is returned");
            std::mem::forget(it);
        }
    };
}
graph_harness!(c16_light_graph_spo, GenericLightGraph<VTI>, kind(), true);
graph_harness!(c16_fast_graph_spo, GenericFastGraph<VTI>, kind(), true);
graph_harness!(c16_light_graph_bc, GenericLightGraph<VTI>, [VT(0)], false);
graph_harness!(c16_fast_graph_bc, GenericFastGraph<VTI>, [VT(0)], false);

macro_rules! dataset_harness {
    ($name:ident, $D:ty, $sm:expr, $gm:expr, $svar:expr, $gvar:expr) => {
        #[cfg(kani)]
        #[kani::proof]
        #[kani::unwind(8)]
        pub fn $name() {
            let mut d = <$D>::new();
            let rows: [[u8; 3]; 3] = if $svar { [[0, 1, 2], [1, 2, 3], [2, 3, 4]] } else { [[0, 1, 2], [0, 2, 3], [0, 3, 4]] };
            let gs: [u8; 3] = if $gvar { [3, 4, 5] } else { [5, 5, 5] };
            let mut i = 0;
            while i < 3 {
                d.insert(VT(rows[i][0]), VT(rows[i][1]), VT(rows[i][2]), Some(VT(gs[i]))).unwrap();
                i += 1;
            }
            let (kp, ko) = (kind(), kind());
            let mut it = d.quads_matching($sm, kp, ko, $gm);
            let first = it.next();
            kani::cover!(first.is_none(), "three rows skipped, iterator exhausted");
            kani::cover!(first.is_some(), "a row is returned");
            std::mem::forget(it);
        }
    };
}
dataset_harness!(c16_light_dataset_gspo, GenericLightDataset<VTI>, kind(), Some(kind()), true, true);
dataset_harness!(c16_fast_dataset_gspo, GenericFastDataset<VTI>, kind(), Some(kind()), true, true);
dataset_harness!(c16_light_dataset_bcd, GenericLightDataset<VTI>, kind(), [Some(VT(5))], true, false);
dataset_harness!(c16_fast_dataset_bcd, GenericFastDataset<VTI>, kind(), [Some(VT(5))], true, false);
dataset_harness!(c16_light_dataset_cd, GenericLightDataset<VTI>, [VT(0)], [Some(VT(5))], false, false);
dataset_harness!(c16_fast_dataset_cd, GenericFastDataset<VTI>, [VT(0)], [Some(VT(5))], false, false);
