// Shared lean harness types for sophia_inmem harnesses (DESIGN.md 4, "Common harness types").
//  VT  : Copy term = an IRI (codes 0..=5) or a blank node (codes 6, 7) whose 1-byte text is a slice of
//        ONE static string; Term::eq overridden by a byte comparison (legal & consistent).
//  VTI : TermIndex + GraphNameIndex that is the identity on VT codes (Index = u16); a designated code
//        makes ensure_index fail ("index full"); code UNKNOWN is never indexed (get_index -> None).
use sophia_api::term::{BnodeId, IriRef, Term, TermKind};
use sophia_api::MownStr;
use crate::index::{GraphNameIndex, TermIndex};

pub static POOL: &str = "abcdefgh";
pub const NCODES: u8 = 8;

#[derive(Clone, Copy, Debug, PartialEq, Eq)]
pub struct VT(pub u8);

impl VT {
    pub fn text(&self) -> &'static str {
        let i = (self.0 % NCODES) as usize;
        // POOL is ASCII: every index is a char boundary; the length is the literal 1 (keeps MownStr's
        // owned/borrowed flag a constant for the solver)
        unsafe { std::str::from_utf8_unchecked(std::slice::from_raw_parts(POOL.as_ptr().add(i), 1)) }
    }
    pub fn is_bn(&self) -> bool {
        self.0 % NCODES >= 6
    }
}

impl Term for VT {
    type BorrowTerm<'x> = VT;
    fn kind(&self) -> TermKind {
        if self.is_bn() { TermKind::BlankNode } else { TermKind::Iri }
    }
    fn iri(&self) -> Option<IriRef<MownStr<'_>>> {
        if self.is_bn() { None } else { Some(IriRef::new_unchecked_const(self.text()).map_unchecked(MownStr::from_ref)) }
    }
    fn bnode_id(&self) -> Option<BnodeId<MownStr<'_>>> {
        if self.is_bn() { Some(BnodeId::new_unchecked_const(self.text()).map_unchecked(MownStr::from_ref)) } else { None }
    }
    fn borrow_term(&self) -> VT {
        *self
    }
    // consistent override: two VT-like terms are equal iff same kind and same 1-byte text
    fn eq<T: Term>(&self, other: T) -> bool {
        if let Some(o) = as_vt(&other) {
            return self.0 % NCODES == o.0 % NCODES;
        }
        if self.kind() != other.kind() {
            return false;
        }
        let mine = self.text().as_bytes()[0];
        if self.is_bn() {
            match other.bnode_id() {
                Some(b) => b.as_str().as_bytes().len() == 1 && b.as_str().as_bytes()[0] == mine,
                None => false,
            }
        } else {
            match other.iri() {
                Some(b) => b.as_str().as_bytes().len() == 1 && b.as_str().as_bytes()[0] == mine,
                None => false,
            }
        }
    }
}

/// Fast path for the solver: VT is the only 1-byte, align-1 `Term` type that flows through these harnesses, so a
/// term of that layout IS a VT and can be read directly instead of through the string accessors.
#[inline]
pub fn as_vt<T: Term>(t: &T) -> Option<VT> {
    if std::mem::size_of::<T>() == 1 && std::mem::align_of::<T>() == 1 {
        Some(unsafe { std::mem::transmute_copy::<T, VT>(t) })
    } else {
        None
    }
}

/// decode any 1-byte VT-like term back to its code
pub fn code_of<T: Term>(t: T) -> Option<u8> {
    if let Some(o) = as_vt(&t) {
        return Some(o.0 % NCODES);
    }
    let b = match t.kind() {
        TermKind::Iri => t.iri().map(|x| x.as_str().as_bytes()[0]),
        TermKind::BlankNode => t.bnode_id().map(|x| x.as_str().as_bytes()[0]),
        _ => None,
    }?;
    if b >= b'a' && b < b'a' + NCODES { Some(b - b'a') } else { None }
}

#[derive(Debug, Clone, Copy, PartialEq, Eq)]
pub struct IdxErr;
impl std::fmt::Display for IdxErr {
    fn fmt(&self, _: &mut std::fmt::Formatter<'_>) -> std::fmt::Result {
        Ok(())
    }
}
impl std::error::Error for IdxErr {}

pub const DEFAULT_GRAPH: u16 = u16::MAX;

/// ensure_index fails for this code ("index full" stand-in); NCODES = never. A global, because the stores
/// keep their term index private.
pub static mut FULL_FOR: u8 = NCODES;

#[derive(Debug, Clone, Copy)]
pub struct VTI {
    /// which codes have been handed out by ensure_index
    pub known: [bool; NCODES as usize],
}
impl Default for VTI {
    fn default() -> Self {
        VTI { known: [false; NCODES as usize] }
    }
}

impl TermIndex for VTI {
    type Term = VT;
    type Index = u16;
    type Error = IdxErr;

    fn get_index<T: Term>(&self, t: T) -> Option<u16> {
        let c = code_of(t)?;
        if self.known[c as usize] { Some(c as u16) } else { None }
    }
    fn ensure_index<T: Term>(&mut self, t: T) -> Result<u16, IdxErr> {
        let c = code_of(t).ok_or(IdxErr)?;
        if c == unsafe { FULL_FOR } && !self.known[c as usize] {
            return Err(IdxErr);
        }
        self.known[c as usize] = true;
        Ok(c as u16)
    }
    fn get_term(&self, i: u16) -> VT {
        VT(i as u8)
    }
}
impl GraphNameIndex for VTI {
    fn get_default_graph_index(&self) -> u16 {
        DEFAULT_GRAPH
    }
}
