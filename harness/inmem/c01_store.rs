// C01 — in-memory stores behave like a mathematical set of quads/triples.
// Engine K harnesses over the real GenericFast/Light Dataset/Graph code instantiated with the VTI term index
// and the ordered-set model. A boolean-array model of the 3x3x3(x3) possible quads gives the expected flag of
// every mutation and the expected result set of every pattern query.
use super::vt::*;
use crate::dataset::{GenericFastDataset, GenericLightDataset};
use crate::graph::{GenericFastGraph, GenericLightGraph};
use sophia_api::dataset::{Dataset, MutableDataset};
use sophia_api::graph::{Graph, MutableGraph};
use sophia_api::quad::Quad;
use sophia_api::term::matcher::{Any, GraphNameMatcher, Not, TermMatcher, TermMatcherGn};
use sophia_api::term::{Term, TermKind};
use sophia_api::triple::Triple;

pub const NT: usize = 3; // subject/predicate/object values 0,1 (IRIs a,b) and 2 (blank node VT(6))
pub const NG: usize = 3; // graph selector 0 = default graph, 1 = VT(3), 2 = VT(4)
/// number of operations of a history = capacity of the ordered-set model = capacity of the reference model
pub const K: usize = crate::__ordset::CAP;
pub const ROWS: usize = K;

pub fn gname(gi: u8) -> Option<VT> {
    match gi {
        0 => None,
        1 => Some(VT(3)),
        _ => Some(VT(4)),
    }
}
pub fn gidx(g: Option<VT>) -> u8 {
    match g {
        None => 0,
        Some(VT(3)) => 1,
        Some(VT(4)) => 2,
        _ => 99,
    }
}
/// term of position value v: values 0,1 are the IRIs a,b ; value 2 is the blank node VT(6) so that kind matchers discriminate
pub fn tcode(v: u8) -> VT {
    if v == 2 { VT(6) } else { VT(v) }
}
pub fn tval(t: VT) -> u8 {
    match t.0 {
        0 => 0,
        1 => 1,
        6 => 2,
        _ => 99,
    }
}

#[derive(Clone, Copy, PartialEq, Eq)]
pub struct Q {
    pub s: u8,
    pub p: u8,
    pub o: u8,
    pub g: u8,
}
#[cfg(kani)]
pub fn any_q() -> Q {
    let q = Q { s: kani::any(), p: kani::any(), o: kani::any(), g: kani::any() };
    kani::assume(q.s < NT as u8 && q.p < NT as u8 && q.o < NT as u8 && q.g < NG as u8);
    q
}
pub trait Dec {
    fn dec(&self) -> Q;
}
impl Dec for (Option<VT>, [VT; 3]) {
    fn dec(&self) -> Q {
        Q { s: tval(self.1[0]), p: tval(self.1[1]), o: tval(self.1[2]), g: gidx(self.0) }
    }
}
impl Dec for [VT; 3] {
    fn dec(&self) -> Q {
        Q { s: tval(self[0]), p: tval(self[1]), o: tval(self[2]), g: 0 }
    }
}

/// Reference model: the set as a list of at most K members (a history has at most K insertions).
pub struct Model {
    pub items: [Q; K],
    pub used: [bool; K],
}
impl Model {
    pub fn new() -> Self {
        Model { items: [Q { s: 0, p: 0, o: 0, g: 0 }; K], used: [false; K] }
    }
    pub fn find(&self, q: Q) -> Option<usize> {
        let mut i = 0;
        while i < K {
            if self.used[i] && self.items[i] == q {
                return Some(i);
            }
            i += 1;
        }
        None
    }
    pub fn get(&self, q: Q) -> bool {
        self.find(q).is_some()
    }
    pub fn set(&mut self, q: Q, b: bool) {
        match self.find(q) {
            Some(i) => {
                if !b {
                    self.used[i] = false;
                }
            }
            None => {
                if b {
                    let mut i = 0;
                    while i < K {
                        if !self.used[i] {
                            self.used[i] = true;
                            self.items[i] = q;
                            return;
                        }
                        i += 1;
                    }
                    assert!(false, "harness bound: more than K members");
                }
            }
        }
    }
}

// ------------------------------------------------------------------------------------------------
// pattern descriptions: how to build the shipped matcher and what it must select

pub trait TPat: Copy {
    type M: TermMatcher;
    fn mk(&self) -> Self::M;
    fn holds(&self, v: u8) -> bool;
}
#[derive(Clone, Copy)]
pub struct PAny;
impl TPat for PAny {
    type M = Any;
    fn mk(&self) -> Any {
        Any
    }
    fn holds(&self, _v: u8) -> bool {
        true
    }
}
/// `[t]` — exposes constant()
#[derive(Clone, Copy)]
pub struct PConst(pub u8);
impl TPat for PConst {
    type M = [VT; 1];
    fn mk(&self) -> [VT; 1] {
        [tcode(self.0)]
    }
    fn holds(&self, v: u8) -> bool {
        v == self.0
    }
}
/// `Some(t)` — exposes constant()
#[derive(Clone, Copy)]
pub struct POpt(pub u8);
impl TPat for POpt {
    type M = Option<VT>;
    fn mk(&self) -> Option<VT> {
        Some(tcode(self.0))
    }
    fn holds(&self, v: u8) -> bool {
        v == self.0
    }
}
/// `[t1, t2]` — no constant, residual filter
#[derive(Clone, Copy)]
pub struct PTwo(pub u8, pub u8);
impl TPat for PTwo {
    type M = [VT; 2];
    fn mk(&self) -> [VT; 2] {
        [tcode(self.0), tcode(self.1)]
    }
    fn holds(&self, v: u8) -> bool {
        v == self.0 || v == self.1
    }
}
/// `Not([t])`
#[derive(Clone, Copy)]
pub struct PNot(pub u8);
impl TPat for PNot {
    type M = Not<[VT; 1]>;
    fn mk(&self) -> Not<[VT; 1]> {
        Not([tcode(self.0)])
    }
    fn holds(&self, v: u8) -> bool {
        v != self.0
    }
}
/// TermKind matcher: value 2 is the only blank node
#[derive(Clone, Copy)]
pub struct PKind(pub bool);
impl TPat for PKind {
    type M = TermKind;
    fn mk(&self) -> TermKind {
        if self.0 { TermKind::BlankNode } else { TermKind::Iri }
    }
    fn holds(&self, v: u8) -> bool {
        (v == 2) == self.0
    }
}

pub trait GPat: Copy {
    type M: GraphNameMatcher;
    fn mk(&self) -> Self::M;
    fn holds(&self, g: u8) -> bool;
}
impl GPat for PAny {
    type M = Any;
    fn mk(&self) -> Any {
        Any
    }
    fn holds(&self, _g: u8) -> bool {
        true
    }
}
/// `[gn]` — exposes constant()
#[derive(Clone, Copy)]
pub struct GConst(pub u8);
impl GPat for GConst {
    type M = [Option<VT>; 1];
    fn mk(&self) -> [Option<VT>; 1] {
        [gname(self.0)]
    }
    fn holds(&self, g: u8) -> bool {
        g == self.0
    }
}
/// `Some(gn)` as Option<Option<T>> — exposes constant()
#[derive(Clone, Copy)]
pub struct GOpt(pub u8);
impl GPat for GOpt {
    type M = Option<Option<VT>>;
    fn mk(&self) -> Option<Option<VT>> {
        Some(gname(self.0))
    }
    fn holds(&self, g: u8) -> bool {
        g == self.0
    }
}
#[derive(Clone, Copy)]
pub struct GTwo(pub u8, pub u8);
impl GPat for GTwo {
    type M = [Option<VT>; 2];
    fn mk(&self) -> [Option<VT>; 2] {
        [gname(self.0), gname(self.1)]
    }
    fn holds(&self, g: u8) -> bool {
        g == self.0 || g == self.1
    }
}
#[derive(Clone, Copy)]
pub struct GNot(pub u8);
impl GPat for GNot {
    type M = Not<[Option<VT>; 1]>;
    fn mk(&self) -> Not<[Option<VT>; 1]> {
        Not([gname(self.0)])
    }
    fn holds(&self, g: u8) -> bool {
        g != self.0
    }
}
/// term matcher lifted with .gn(): a constant named graph, never the default graph (g in 1..=2)
#[derive(Clone, Copy)]
pub struct GTermGn(pub u8);
impl GPat for GTermGn {
    type M = TermMatcherGn<[VT; 1]>;
    fn mk(&self) -> TermMatcherGn<[VT; 1]> {
        [gname(self.0).unwrap()].gn()
    }
    fn holds(&self, g: u8) -> bool {
        g == self.0
    }
}
/// `None::<TermKind>` selects the default graph, `Some(Iri)` the named ones
#[derive(Clone, Copy)]
pub struct GKind(pub bool);
impl GPat for GKind {
    type M = Option<TermKind>;
    fn mk(&self) -> Option<TermKind> {
        if self.0 { Some(TermKind::Iri) } else { None }
    }
    fn holds(&self, g: u8) -> bool {
        (g != 0) == self.0
    }
}

// ------------------------------------------------------------------------------------------------
// datasets

pub fn ds_apply<D: MutableDataset>(d: &mut D, m: &mut Model, ins: bool, q: Q) {
    let before = m.get(q);
    if ins {
        match d.insert(tcode(q.s), tcode(q.p), tcode(q.o), gname(q.g)) {
            Ok(r) => assert!(r == !before, "insert: returned flag differs from 'the set really changed'"),
            Err(_) => assert!(false, "insert failed although the term index is not full"),
        }
        m.set(q, true);
    } else {
        match d.remove(tcode(q.s), tcode(q.p), tcode(q.o), gname(q.g)) {
            Ok(r) => assert!(r == before, "remove: returned flag differs from 'the set really changed'"),
            Err(_) => assert!(false, "remove failed"),
        }
        m.set(q, false);
    }
}

/// Step the iterator at most ROWS+1 times; every row must be a distinct member that matches; afterwards the
/// number of rows must equal the number of matching members of the model.
pub fn check_rows<I, X, SP: TPat, PP: TPat, OP: TPat, GP: GPat>(mut it: I, m: &Model, sp: SP, pp: PP, op: OP, gp: GP)
where
    I: Iterator<Item = Result<X, IdxErr>>,
    X: Dec,
{
    let mut seen = [false; K];
    let mut n = 0usize;
    let mut i = 0;
    let mut exhausted = false;
    while i < ROWS + 1 {
        match it.next() {
            None => {
                exhausted = true;
                break;
            }
            Some(Err(_)) => assert!(false, "query error"),
            Some(Ok(x)) => {
                let q = x.dec();
                assert!(q.s < NT as u8 && q.p < NT as u8 && q.o < NT as u8 && q.g < NG as u8, "query returned a term that was never inserted");
                match m.find(q) {
                    None => assert!(false, "query returned a statement that is not in the set"),
                    Some(j) => {
                        assert!(!seen[j], "query returned the same statement twice");
                        seen[j] = true;
                    }
                }
                assert!(TPat::holds(&sp, q.s) && TPat::holds(&pp, q.p) && TPat::holds(&op, q.o) && GPat::holds(&gp, q.g), "query returned a statement that does not match the pattern");
                n += 1;
            }
        }
        i += 1;
    }
    assert!(exhausted, "query returned more rows than the set holds");
    let mut expected = 0usize;
    let mut j = 0;
    while j < K {
        let q = m.items[j];
        if m.used[j] && TPat::holds(&sp, q.s) && TPat::holds(&pp, q.p) && TPat::holds(&op, q.o) && GPat::holds(&gp, q.g) {
            expected += 1;
        }
        j += 1;
    }
    #[cfg(kani)]
    {
        kani::cover!(expected >= 1, "pattern selects at least one member");
        kani::cover!(expected == 0 && n == 0, "pattern selects nothing");
    }
    assert!(n == expected, "query missed a matching member");
    std::mem::forget(it);
}

macro_rules! ds_query {
    ($d:expr, $m:expr, $sp:expr, $pp:expr, $op:expr, $gp:expr) => {{
        let (sp, pp, op, gp) = ($sp, $pp, $op, $gp);
        check_rows($d.quads_matching(TPat::mk(&sp), TPat::mk(&pp), TPat::mk(&op), GPat::mk(&gp)), $m, sp, pp, op, gp);
    }};
}

#[cfg(kani)]
pub fn ds_history<D: MutableDataset>(d: &mut D, m: &mut Model, k: usize) {
    let mut i = 0;
    while i < k {
        let ins: bool = kani::any();
        let q = any_q();
        ds_apply(d, m, ins, q);
        i += 1;
    }
}

#[cfg(kani)]
pub fn any_t() -> u8 {
    let v: u8 = kani::any();
    kani::assume(v < NT as u8);
    v
}
#[cfg(kani)]
pub fn any_g() -> u8 {
    let v: u8 = kani::any();
    kani::assume(v < NG as u8);
    v
}

// one harness per store type x pattern shape (every matcher type is its own monomorphisation)
macro_rules! ds_harness {
    ($name:ident, $D:ty, $k:expr, $sp:expr, $pp:expr, $op:expr, $gp:expr) => {
        #[cfg(kani)]
        #[kani::proof]
        #[kani::unwind(7)]
        pub fn $name() {
            let mut d = <$D>::new();
            let mut m = Model::new();
            ds_history(&mut d, &mut m, K);
            ds_query!(d, &m, $sp, $pp, $op, $gp);
            std::mem::forget(d);
        }
    };
}

// the 16 bound/unbound shapes: S P O G  (1 = constant via [t], 0 = Any)
macro_rules! shapes16 {
    ($D:ty, $k:expr; $($name:ident : $s:tt $p:tt $o:tt $g:tt),* $(,)?) => {
        $( ds_harness!($name, $D, $k, shape_t!($s), shape_t!($p), shape_t!($o), shape_g!($g)); )*
    };
}
// constants of the shape harnesses are given as Some(t) / Some(gn) (no slice iteration in `matches`);
// the [t] / [gn] forms are exercised by the residual-matcher harnesses below
macro_rules! shape_t {
    (0) => { PAny };
    (1) => { POpt(any_t()) };
}
macro_rules! shape_g {
    (0) => { PAny };
    (1) => { GOpt(any_g()) };
}

shapes16!(GenericFastDataset<VTI>, 2;
    c01_fd_0000: 0 0 0 0, c01_fd_0001: 0 0 0 1, c01_fd_0010: 0 0 1 0, c01_fd_0011: 0 0 1 1,
    c01_fd_0100: 0 1 0 0, c01_fd_0101: 0 1 0 1, c01_fd_0110: 0 1 1 0, c01_fd_0111: 0 1 1 1,
    c01_fd_1000: 1 0 0 0, c01_fd_1001: 1 0 0 1, c01_fd_1010: 1 0 1 0, c01_fd_1011: 1 0 1 1,
    c01_fd_1100: 1 1 0 0, c01_fd_1101: 1 1 0 1, c01_fd_1110: 1 1 1 0, c01_fd_1111: 1 1 1 1,
);
shapes16!(GenericLightDataset<VTI>, 2;
    c01_ld_0000: 0 0 0 0, c01_ld_0001: 0 0 0 1, c01_ld_0010: 0 0 1 0, c01_ld_0011: 0 0 1 1,
    c01_ld_0100: 0 1 0 0, c01_ld_0101: 0 1 0 1, c01_ld_0110: 0 1 1 0, c01_ld_0111: 0 1 1 1,
    c01_ld_1000: 1 0 0 0, c01_ld_1001: 1 0 0 1, c01_ld_1010: 1 0 1 0, c01_ld_1011: 1 0 1 1,
    c01_ld_1100: 1 1 0 0, c01_ld_1101: 1 1 0 1, c01_ld_1110: 1 1 1 0, c01_ld_1111: 1 1 1 1,
);

// residual matcher kinds (no constant => filtered by the matching iterators), one position at a time
ds_harness!(c01_fd_res_two_s, GenericFastDataset<VTI>, 2, PTwo(any_t(), any_t()), PAny, PAny, PAny);
ds_harness!(c01_fd_res_not_o_gconst, GenericFastDataset<VTI>, 2, PAny, PAny, PNot(any_t()), GConst(any_g()));
ds_harness!(c01_fd_res_kind_p_sconst, GenericFastDataset<VTI>, 2, PConst(any_t()), PKind(kani::any()), PAny, PAny);
ds_harness!(c01_fd_res_gtwo, GenericFastDataset<VTI>, 2, PAny, PAny, PAny, GTwo(any_g(), any_g()));
ds_harness!(c01_fd_res_gnot_oconst, GenericFastDataset<VTI>, 2, PAny, PAny, PConst(any_t()), GNot(any_g()));
ds_harness!(c01_fd_res_gkind_pconst, GenericFastDataset<VTI>, 2, PAny, PConst(any_t()), PAny, GKind(kani::any()));
ds_harness!(c01_fd_opt_s_gopt, GenericFastDataset<VTI>, 2, POpt(any_t()), PAny, PAny, GOpt(any_g()));
// g and p constant (gpos index), residual matchers on BOTH s and o that accept different terms
ds_harness!(c01_fd_res_so_gpconst, GenericFastDataset<VTI>, 2, PNot(any_t()), POpt(any_t()), PTwo(any_t(), any_t()), GOpt(any_g()));
ds_harness!(c01_fd_res_so_gpconst_light, GenericFastDataset<VTI>, 2, PKind(kani::any()), POpt(any_t()), PNot(any_t()), GOpt(any_g()));
ds_harness!(c01_fd_res_po_gsconst, GenericFastDataset<VTI>, 2, POpt(any_t()), PNot(any_t()), PKind(kani::any()), GOpt(any_g()));
ds_harness!(c01_fd_res_sp_oconst, GenericFastDataset<VTI>, 2, PNot(any_t()), PTwo(any_t(), any_t()), POpt(any_t()), PAny);
ds_harness!(c01_ld_res_two_o_gconst, GenericLightDataset<VTI>, 2, PAny, PAny, PTwo(any_t(), any_t()), GConst(any_g()));
ds_harness!(c01_ld_res_not_p_sgconst, GenericLightDataset<VTI>, 2, PConst(any_t()), PNot(any_t()), PAny, GConst(any_g()));
ds_harness!(c01_ld_res_gnot, GenericLightDataset<VTI>, 2, PAny, PAny, PAny, GNot(any_g()));
ds_harness!(c01_ld_res_gkind, GenericLightDataset<VTI>, 2, PAny, PAny, PAny, GKind(kani::any()));
ds_harness!(c01_ld_res_kind_s, GenericLightDataset<VTI>, 2, PKind(kani::any()), PAny, PAny, PAny);

#[cfg(kani)]
#[kani::proof]
#[kani::unwind(7)]
pub fn c01_fd_termgn() {
    let mut d = <GenericFastDataset<VTI>>::new();
    let mut m = Model::new();
    ds_history(&mut d, &mut m, K);
    let g = any_g();
    kani::assume(g != 0);
    ds_query!(d, &m, PAny, PAny, PAny, GTermGn(g));
    std::mem::forget(d);
}

// ------------------------------------------------------------------------------------------------
// graphs (the model's g = 0 plane is used)

pub fn gr_apply<G: MutableGraph>(d: &mut G, m: &mut Model, ins: bool, q: Q) {
    let before = m.get(q);
    if ins {
        match d.insert(tcode(q.s), tcode(q.p), tcode(q.o)) {
            Ok(r) => assert!(r == !before, "insert: returned flag differs from 'the set really changed'"),
            Err(_) => assert!(false, "insert failed although the term index is not full"),
        }
        m.set(q, true);
    } else {
        match d.remove(tcode(q.s), tcode(q.p), tcode(q.o)) {
            Ok(r) => assert!(r == before, "remove: returned flag differs from 'the set really changed'"),
            Err(_) => assert!(false, "remove failed"),
        }
        m.set(q, false);
    }
}

macro_rules! gr_query {
    ($d:expr, $m:expr, $sp:expr, $pp:expr, $op:expr) => {{
        let (sp, pp, op) = ($sp, $pp, $op);
        check_rows($d.triples_matching(TPat::mk(&sp), TPat::mk(&pp), TPat::mk(&op)), $m, sp, pp, op, PAny);
    }};
}

#[cfg(kani)]
pub fn gr_history<G: MutableGraph>(d: &mut G, m: &mut Model, k: usize) {
    let mut i = 0;
    while i < k {
        let ins: bool = kani::any();
        let mut q = any_q();
        q.g = 0;
        gr_apply(d, m, ins, q);
        i += 1;
    }
}

macro_rules! gr_harness {
    ($name:ident, $G:ty, $k:expr, $sp:expr, $pp:expr, $op:expr) => {
        #[cfg(kani)]
        #[kani::proof]
        #[kani::unwind(7)]
        pub fn $name() {
            let mut d = <$G>::new();
            let mut m = Model::new();
            gr_history(&mut d, &mut m, K);
            gr_query!(d, &m, $sp, $pp, $op);
            std::mem::forget(d);
        }
    };
}
macro_rules! shapes8 {
    ($G:ty, $k:expr; $($name:ident : $s:tt $p:tt $o:tt),* $(,)?) => {
        $( gr_harness!($name, $G, $k, shape_t!($s), shape_t!($p), shape_t!($o)); )*
    };
}
shapes8!(GenericFastGraph<VTI>, 3;
    c01_fg_000: 0 0 0, c01_fg_001: 0 0 1, c01_fg_010: 0 1 0, c01_fg_011: 0 1 1,
    c01_fg_100: 1 0 0, c01_fg_101: 1 0 1, c01_fg_110: 1 1 0, c01_fg_111: 1 1 1,
);
shapes8!(GenericLightGraph<VTI>, 3;
    c01_lg_000: 0 0 0, c01_lg_001: 0 0 1, c01_lg_010: 0 1 0, c01_lg_011: 0 1 1,
    c01_lg_100: 1 0 0, c01_lg_101: 1 0 1, c01_lg_110: 1 1 0, c01_lg_111: 1 1 1,
);
gr_harness!(c01_fg_res_two_p, GenericFastGraph<VTI>, 3, PAny, PTwo(any_t(), any_t()), PAny);
gr_harness!(c01_fg_res_two_p_sconst, GenericFastGraph<VTI>, 3, POpt(any_t()), PTwo(any_t(), any_t()), PAny);
gr_harness!(c01_lg_res_two_p_sconst, GenericLightGraph<VTI>, 3, POpt(any_t()), PTwo(any_t(), any_t()), PAny);
gr_harness!(c01_fg_res_not_o_sconst, GenericFastGraph<VTI>, 3, PConst(any_t()), PAny, PNot(any_t()));
gr_harness!(c01_fg_res_kind_s_oconst, GenericFastGraph<VTI>, 3, PKind(kani::any()), PAny, POpt(any_t()));
gr_harness!(c01_lg_res_not_s, GenericLightGraph<VTI>, 3, PNot(any_t()), PAny, PAny);
gr_harness!(c01_lg_res_kind_o_sconst, GenericLightGraph<VTI>, 3, PConst(any_t()), PAny, PKind(kani::any()));

// ------------------------------------------------------------------------------------------------
// unknown constant / index full

#[cfg(kani)]
#[kani::proof]
#[kani::unwind(7)]
pub fn c01_fd_unknown_constant() {
    let mut d = <GenericFastDataset<VTI>>::new();
    let mut m = Model::new();
    ds_history(&mut d, &mut m, K);
    // VT(5) is never inserted anywhere
    let pos: u8 = kani::any();
    kani::assume(pos < 4);
    let n = match pos {
        0 => d.quads_matching([VT(5)], Any, Any, Any).count(),
        1 => d.quads_matching(Any, [VT(5)], Any, Any).count(),
        2 => d.quads_matching(Any, Any, [VT(5)], Any).count(),
        _ => d.quads_matching(Any, Any, Any, [Some(VT(5))]).count(),
    };
    assert!(n == 0, "unknown constant term must give an empty result");
    let r = match pos {
        0 => d.remove(VT(5), VT(0), VT(0), None::<VT>),
        1 => d.remove(VT(0), VT(5), VT(0), None::<VT>),
        2 => d.remove(VT(0), VT(0), VT(5), None::<VT>),
        _ => d.remove(VT(0), VT(0), VT(0), Some(VT(5))),
    };
    assert!(r == Ok(false), "removing a quad with an unknown term must answer false");
    ds_query!(d, &m, PAny, PAny, PAny, PAny);
    std::mem::forget(d);
}

#[cfg(kani)]
#[kani::proof]
#[kani::unwind(7)]
pub fn c01_fd_index_full() {
    let mut d = <GenericFastDataset<VTI>>::new();
    let mut m = Model::new();
    // the term index refuses one (symbolic) code; a symbolic quad is inserted into the empty store
    let full: u8 = kani::any();
    kani::assume(full == 0 || full == 1 || full == 6 || full == 3 || full == 4);
    unsafe { FULL_FOR = full; }
    let q = any_q();
    let uses = tcode(q.s).0 == full || tcode(q.p).0 == full || tcode(q.o).0 == full || gname(q.g).map(|t| t.0) == Some(full);
    let r = d.insert(tcode(q.s), tcode(q.p), tcode(q.o), gname(q.g));
    kani::cover!(uses && tcode(q.s).0 != full, "the insertion hits the full index after indexing another term");
    if uses {
        assert!(r.is_err(), "index full must be reported as an error");
    } else {
        assert!(r == Ok(true));
        m.set(q, true);
    }
    // a failed insert leaves the quad sets unchanged; terms indexed on the way do not matter
    unsafe { FULL_FOR = NCODES; }
    ds_query!(d, &m, PAny, PAny, PAny, PAny);
    let q2 = any_q();
    ds_apply(&mut d, &mut m, true, q2);
    ds_query!(d, &m, PAny, PAny, PAny, GConst(any_g()));
    std::mem::forget(d);
}
