# data for tools_gen_manifest.py
k("C15",
  "Bounded model checking of the real Source/adapter/StreamError code: for every sequence of <=4 items, every single source- or sink-fault position, "
  "all adapter chains up to depth 2 (+3 of depth 3) and both driving modes, CBMC proves the consumer sees exactly the reference prefix and the error "
  "side/payload is right. Exhaustive inside the bound; nothing is sampled.",
  "Trusted: Kani/CBMC/cadical, rustc MIR semantics as modelled by Kani. Harness iterator/sink stand for user code. Outside: real parsers as sources, sequences >4.",
  "Kani proof harnesses (symbolic items + fault positions) decided by CBMC/SAT; counterexamples replayed natively with cargo kani playback",
  "DESIGN.md 4 C15")

NA.update({
 "C06": "RDFC-1.0 conformance needs SHA-2, string-keyed maps and format! on symbolic data plus an executable spec: beyond CBMC/SMT reach (probe: _cnq::nq on one symbolic char >14 min)",
 "C12": "JSON-LD round trip runs through the json-ld crate (async expansion, ~40 kLOC) and string-keyed HashMaps: not encodable within any useful bound",
 "C13": "whole SPARQL evaluator over spargebra trees with Arc<str> stashes and boxed iterator chains; no loop-free kernel carries the property",
 "C18": "serializer and parser are both third-party Rio/quick-xml, I/O-buffered; sophia's own code on the path is a term conversion",
 "C20": "every clause flows through core::fmt / FromStr of std (probe: CBMC exhausted 13.8 GB on the i32 instance); float formatting is a declared weak target",
})
