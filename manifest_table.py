# data for tools_gen_manifest.py
k("C15",
  "Bounded model checking of the real Source/adapter/StreamError code: for every sequence of <=4 items, every single source- or sink-fault position, "
  "all adapter chains up to depth 2 (+3 of depth 3) and both driving modes, CBMC proves the consumer sees exactly the reference prefix and the error "
  "side/payload is right; the same for a multi-item-per-step source, for map/filter_map(..).into_iter(), for the Rio adapters over a harness parser, for "
  "insert_all/remove_all/from_*_source on the real in-memory stores (content checked through secondary indexes) and for Nt/NqSerializer with a failing writer. "
  "Exhaustive inside the bound. A native fault corpus (real serializers, stores and Turtle parser, every single-fault position, dev+release) is run in addition and labelled as not solver-decided.",
  "Trusted: Kani/CBMC/cadical, rustc MIR semantics as modelled by Kani; VecDeque and BTreeSet models. Harness iterator/sink/parser stand for user code. Outside: real parsers as sources, sequences >4.",
  "Kani proof harnesses (symbolic items + fault positions) decided by CBMC/SAT; counterexamples replayed natively with cargo kani playback",
  "DESIGN.md 4 C15")

NA.update({
 "C07": "refinement loop/colour maps are HashMap<String,..>/SipHash code (std HashMap does not finish in CBMC); the IsoTerm sub-mechanism runs the recursive default Term::eq/cmp on quoted triples, which did not finish (900 s / 14 GB) — DESIGN.md 5",
 "C10": "SimpleTermIndex is a HashMap keyed by heap-owning SimpleTerms; the simplest clone/drop harness did not finish in 18 min (std HashMap) / 5 min (association-vector model); no solver verdict available — DESIGN.md 5",
 "C14": "the ORDER BY path is the whole SPARQL evaluator (see C13); the loop-free numeric kernel timed out in Kani at 40 min (float casts) and the MIR->SMT translator that would decide it was not built — DESIGN.md 5",
 "C17": "every formulation running oxiri's resolver on a symbolic reference exceeded 18-26 min / 7-15 GB; without the resolver there is no oracle inside the solver — DESIGN.md 5",
 "C19": "std::path::Components on symbolic strings: the 2-byte LocalLoader::get harness timed out at 45 min — DESIGN.md 5",
 "C06": "RDFC-1.0 conformance needs SHA-2, string-keyed maps and format! on symbolic data plus an executable spec: beyond CBMC/SMT reach (probe: _cnq::nq on one symbolic char >14 min)",
 "C12": "JSON-LD round trip runs through the json-ld crate (async expansion, ~40 kLOC) and string-keyed HashMaps: not encodable within any useful bound",
 "C13": "whole SPARQL evaluator over spargebra trees with Arc<str> stashes and boxed iterator chains; no loop-free kernel carries the property",
 "C18": "serializer and parser are both third-party Rio/quick-xml, I/O-buffered; sophia's own code on the path is a term conversion",
 "C20": "every clause flows through core::fmt / FromStr of std (probe: CBMC exhausted 13.8 GB on the i32 instance); float formatting is a declared weak target",
})

k("C05",
  "Bounded model checking of the real permutation enumerator behind RDFC-1.0's n-degree hash: for n<=5 pairwise distinct symbolic elements CBMC proves exactly n! "
  "callbacks, each a permutation of the input, all pairwise different, and that a callback error stops the enumeration and is propagated. Partial: the rest of C05 "
  "(hashing, issuer, iff) is outside the claim.",
  "Trusted: Kani/CBMC. Outside: SHA-2, BTreeMap<Rc<str>>, format!-built identifiers (not encodable: DESIGN.md probes 19,20,24); n>5.",
  "Kani proof harnesses over symbolic distinct elements and symbolic failure position, CBMC/SAT",
  "DESIGN.md 4 C05")

k("C16",
  "For each of the five matching iterators and the N-Triples escaper, CBMC decides (recursion unwinding assertion with a per-function recursion bound of 1, "
  "3 rows skipped at a symbolic residual position / 4 escaped bytes) that the function does not re-enter itself per element; a failure is confirmed natively with 10^6 elements on a 2 MiB "
  "stack in dev and release builds before it is reported. Partial: SPARQL graph_rec, JSON-LD list recursion and Turtle list output are outside.",
  "Trusted: Kani/CBMC; ordered-set model for BTreeSet; the stack itself is only observed in the native replay.",
  "CBMC recursion-unwinding assertion as oracle on Kani harnesses; native 2 MiB-stack replay",
  "DESIGN.md 4 C16")

k("C09",
  "The two IRI regular expressions are extracted from the current source, translated to SMT-LIB RegLan over an exact minterm alphabet and z3 5.1 decides, for "
  "strings of EVERY length, L(IRI_REGEX_SRC) = L(RFC 3987 IRI), L(IRELATIVE_REF_REGEX_SRC) = L(irelative-ref) and disjointness (5 obligations, all unsat = proof). "
  "Any witness is replayed on the real validators and on Iri::as_base()/resolve() (no panic, result valid) before being reported. In addition (native, finite, not solver-decided) "
  "the four resolving entry points (Iri::resolve, IriRef::resolve, BaseIri::resolve, resolve_into) are compared with a transcription of RFC 3986 5.2 on (base, reference) pairs drawn from "
  "fixed lists, the corpus and the solver witnesses; two deviations of the third-party resolver are recorded KNOWN-FINDINGs.",
  "Trusted: z3's regex theory (bounded cross-check on z3 4.8.12/cvc5), my regex-syntax parser (validated against the real regex crate every run), the RFC transcription. "
  "Outside: equality of resolve() with RFC 3986 5.2 for all pairs (oxiri is not encoded; only the finite native differential).",
  "regex -> SMT-LIB RegLan equivalence/inclusion decided by z3 (unbounded), witnesses replayed natively",
  "DESIGN.md 4 C09", level="proof")

k("C04",
  "Partial, mixed. (R, unbounded) the six patterns that decide when the Turtle pretty-printer writes a bare numeric/boolean literal or a prefixed name are extracted from the "
  "current source and z3 5.1 decides, for strings of every length, that each language is included in the corresponding Turtle 1.1 terminal (6 obligations, unsat). "
  "(K, bounded) CBMC proves PrefixMap::get_checked_prefixed_pair sound (namespace + suffix = IRI, suffix passes the check) for 4-byte IRIs and two overlapping/unrelated namespaces. "
  "Witnesses are replayed through TurtleSerializer + the real parser. The weaker (bounded) level is reported.",
  "Trusted: z3 regex theory, regex-syntax subset parser (validated vs the real regex crate each run), grammar transcription, Kani/CBMC. Outside: the pretty-printer's graph "
  "heuristics (labelled/lists/subject types) and Rio's parser.",
  "regex -> SMT-LIB RegLan inclusion decided by z3 (unbounded) + Kani/CBMC harness on the prefix-map lookup; witnesses replayed through serializer+parser",
  "DESIGN.md 4 C04")

k("C03",
  "Split claim. (a) CBMC proves, for every valid UTF-8 string of <=3 (thorough 4) bytes, that quoted_string's output decodes back to the input under a transcription of the "
  "W3C STRING_LITERAL_QUOTE grammar and contains no raw quote/CR/LF; and that write_term escapes and frames a literal of one symbolic ASCII byte identically for a symbolic datatype among "
  "xsd:string/integer/decimal/double/boolean/non-XSD (ill-typed literals included). (b) z3 proves for strings of every length that valid blank node labels and absolute IRIs are "
  "grammatical where they are copied verbatim and that every BCP47 tag is constructible. (c) the parser half (Rio) is exercised only in the native replay of a corpus and of witnesses.",
  "Trusted: Kani/CBMC, z3, grammar transcriptions. Outside: that Rio inverts the escaping beyond the corpus; strings longer than the bound; non-BCP47 tags accepted by LANG_TAG.",
  "Kani/CBMC harness with decoder oracle + regex-language inclusion in z3 + native round-trip replay",
  "DESIGN.md 4 C03")

k("C08",
  "Partial (the Trusted<T> mechanism only). For each grammar terminal a parser can yield (blank node label, LANGTAG, VARNAME, PN_PREFIX, absolute IRI, IRI reference) z3 5.1 "
  "decides for strings of every length that the terminal's language is included in the toolkit validator's language, so new_unchecked can neither panic under debug "
  "assertions nor wrap an invalid value. Witnesses are replayed through the real nt/turtle/gtrig parsers (dev and release); two documented reference gaps "
  "(consecutive dots, ':' in N-Triples labels) are assumed away and guarded natively on every run. A two-variable obligation on prefixed-name expansion is a recorded KNOWN-FINDING.",
  "Trusted: z3, grammar transcriptions, that Rio yields only grammar tokens. Outside: totality/termination/stack of the third-party lexers on arbitrary bytes, RDF/XML, JSON-LD.",
  "regex-language inclusion (grammar terminal ⊆ validator) decided by z3, witnesses replayed through the real parsers",
  "DESIGN.md 4 C08", level="proof")

k("C01",
  "Bounded model checking of the real Generic{Fast,Light}{Dataset,Graph} code (insert/remove with all secondary indexes, the 16-way/8-way index selection with its "
  "range bounds and permutation closures, the five matching iterators with cached match flags, the shipped matcher types): for every history of 2 (thorough: 3 on graphs) "
  "symbolic insert/remove operations and every value of the pattern constants, each mutation returns 'the set really changed' and each pattern query returns exactly the "
  "matching members, each once. One harness per pattern shape / matcher kind; quick runs 30 of them, thorough all 70. Matcher-contract harnesses decide every shipped matcher type "
  "(constant, multi-valued, Not, TermKind over all six kinds, datatype, language tag up to ASCII case, (S,P,O) quoted-triple tuples, graph-name forms) against reference predicates.",
  "Trusted: Kani/CBMC; ordered-set model instead of std BTreeSet; identity term index (VTI) instead of SimpleTermIndex. Outside: quads()/triples() (compiler crash), "
  "histories beyond the bound, literal/quoted-triple terms in stores, index-width exhaustion, foreign Vec/HashSet impls.",
  "Kani proof harnesses (symbolic histories + pattern constants, list model oracle) decided by CBMC/SAT; counterexamples replayed natively on the real BTreeSet",
  "DESIGN.md 4 C01")

k("C02",
  "Bounded model checking of the default Term::eq/cmp/hash, LanguageTag's case-folding Eq/Ord/Hash and NsTerm::eq: for three symbolic terms of each atomic kind "
  "(incl. language tags differing only in case) eq is an equivalence that matches the 'same RDF term' oracle, cmp is antisymmetric, transitive and Equal exactly for equal terms, "
  "equal terms feed identical bytes to the hasher; the cross-kind order blank<IRI<literal<triple<variable; NsTerm::eq == comparing namespace+suffix. Partial: quoted triples only by rank.",
  "Trusted: Kani/CBMC. Outside: SimpleTerm/ArcTerm carriers and conversion paths, quoted triples as operands, strings beyond 1-2 bytes.",
  "Kani proof harnesses over a lean all-kinds term type, decided by CBMC/SAT", "DESIGN.md 4 C02")

k("C11",
  "Bounded model checking of the generic view code (UnionGraph, PartialUnionGraph, DatasetGraph, GraphAsDataset, and the default quads_matching/triples_matching under them) "
  "over an array-backed store of <=3 symbolic quads: every view shows exactly the triples of the selected quads (one per quad) for symbolic selectors/patterns, and a symbolic "
  "insert/remove through a mutable view equals the direct mutation (flag and resulting store).",
  "Trusted: Kani/CBMC. ArrDs/ArrG stand for user stores. Outside: iteration order, real stores under the views, bulk pattern mutations through views.",
  "Kani proof harnesses (symbolic store content, selector, pattern, mutation) decided by CBMC/SAT; counterexamples replayed natively",
  "DESIGN.md 4 C11")
