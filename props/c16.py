"""C16 (partial) — recursion depth of the matching iterators / the N-Triples escaper is independent of the
number of elements. Oracle: CBMC's recursion unwinding assertion with a per-function recursion bound of 2;
confirmation (the part the solver cannot see): 10^6 elements on a 2 MiB stack, dev and release builds."""
import os
from engine import kprop, replay as rp
from engine.kani_run import Harness
from engine.common import VERIF, log

H = os.path.join(VERIF, "harness")

ITER = {  # harness -> (iterator regex, replay scenario)
    "c16_light_graph_spo": (r"^<graph::_iter::SpoMatchingIterator<.* as std::iter::Iterator>::next$", "light_graph_spo"),
    "c16_fast_graph_spo": (r"^<graph::_iter::SpoMatchingIterator<.* as std::iter::Iterator>::next$", "fast_graph_spo"),
    "c16_light_graph_bc": (r"^<graph::_iter::BcMatchingIterator<.* as std::iter::Iterator>::next$", "light_graph_bc"),
    "c16_fast_graph_bc": (r"^<graph::_iter::BcMatchingIterator<.* as std::iter::Iterator>::next$", "fast_graph_bc"),
    "c16_light_dataset_gspo": (r"^<dataset::_iter::GspoMatchingIterator<.* as std::iter::Iterator>::next$", "light_dataset_gspo"),
    "c16_fast_dataset_gspo": (r"^<dataset::_iter::GspoMatchingIterator<.* as std::iter::Iterator>::next$", "fast_dataset_gspo"),
    "c16_light_dataset_bcd": (r"^<dataset::_iter::BcdMatchingIterator<.* as std::iter::Iterator>::next$", "light_dataset_bcd"),
    "c16_fast_dataset_bcd": (r"^<dataset::_iter::BcdMatchingIterator<.* as std::iter::Iterator>::next$", "fast_dataset_bcd"),
    "c16_light_dataset_cd": (r"^<dataset::_iter::CdMatchingIterator<.* as std::iter::Iterator>::next$", "light_dataset_cd"),
    "c16_fast_dataset_cd": (r"^<dataset::_iter::CdMatchingIterator<.* as std::iter::Iterator>::next$", "fast_dataset_cd"),
}
QS = {"c16_quoted_string_rec": (r"^serializer::nt::quoted_string::<", "nt_quoted_string")}

DD = {"c16_pretty_dedup_rec": (r"_pretty::DedupIterator<.* as std::iter::Iterator>::next$", "ttl_pretty_subject")}
PRETTY_VIS = [("turtle/src/serializer.rs", "\nmod _pretty;", "\npub(crate) mod _pretty;", 1),
              ("turtle/src/serializer/_pretty.rs", "\ntrait Dedup: Iterator + Sized {", "\npub(crate) trait Dedup: Iterator + Sized {", 1),
              ("turtle/src/serializer/_pretty.rs", "\nstruct DedupIterator<I: Iterator> {", "\npub(crate) struct DedupIterator<I: Iterator> {", 1)]

QUICK_ITER = ["c16_light_graph_spo", "c16_fast_graph_bc", "c16_fast_dataset_gspo", "c16_light_dataset_bcd", "c16_fast_dataset_cd"]


def specs(tier):
    cap = 180 if tier == "quick" else 1800
    names = QUICK_ITER if tier == "quick" else list(ITER)
    hs = [Harness(n, unwind=8, unwindset=[(ITER[n][0], 1, "rec"), (r"(^|[< ])(graph|dataset)::", 1, "rec")], oracle_unwind=True, timeout=cap,
                  note="3 rows, residual matcher rejects all, recursion bound 1 on the iterator's next()") for n in names]
    s1 = kprop.KSpec(
        package="sophia_inmem", crate_dir="inmem",
        harness_files={"inmem": [os.path.join(H, "inmem", "vt.rs"), os.path.join(H, "inmem", "c16_iter.rs")]},
        harnesses=hs, ordset=True, jobs=5,
        encoded=["sophia_inmem::graph::_iter::{SpoMatchingIterator,BcMatchingIterator}::next",
                 "sophia_inmem::dataset::_iter::{GspoMatchingIterator,BcdMatchingIterator,CdMatchingIterator}::next",
                 "Generic{Light,Fast}{Graph,Dataset}::{insert,triples_matching,quads_matching} (index selection reaching each iterator)"],
        bounds=["3 rows all rejected by the residual matcher", "per-function recursion bound 1 (--unwindset <next>:1: one re-entry tolerated, a second one violates), loops unwind 8",
                "verdict = CBMC recursion unwinding assertion of each next()"],
        outside=["the stack itself (CBMC has no stack model): exercised by the native replay with 10^6 rows on a 2 MiB thread",
                 "graph_rec (SPARQL), populate_list/mark_list_node (JSON-LD), Turtle list output"],
        assumptions=["std BTreeSet replaced by an ordered-set model", "VT/VTI harness term and term-index types"],
    )
    s2 = kprop.KSpec(
        package="sophia_turtle", crate_dir="turtle",
        harness_files={"turtle": [os.path.join(H, "turtle", "c03_common.rs"), os.path.join(H, "turtle", "c03_escape.rs")]},
        harnesses=[Harness("c16_quoted_string_rec", unwind=6, unwindset=[(QS["c16_quoted_string_rec"][0], 1, "rec"), (r"serializer::nt::", 1, "rec")],
                           oracle_unwind=True, timeout=max(cap, 900), note="4 symbolic bytes (valid UTF-8), recursion bound 1 on quoted_string")],
        jobs=2,
        encoded=["sophia_turtle::serializer::nt::quoted_string"],
        bounds=["4 symbolic bytes of valid UTF-8, per-function recursion bound 1"],
    )
    s3 = kprop.KSpec(
        package="sophia_turtle", crate_dir="turtle",
        harness_files={"turtle": [os.path.join(H, "turtle", "c16_dedup.rs")]},
        harnesses=[Harness("c16_pretty_dedup_rec", unwind=8, unwindset=[(DD["c16_pretty_dedup_rec"][0], 1, "rec")], oracle_unwind=True, timeout=cap,
                           note="4 symbolic items through the pretty serializer's DedupIterator, recursion bound 1 on its next(); also: output has no consecutive duplicates and drops nothing else")],
        jobs=1, substitutions=PRETTY_VIS,
        encoded=["sophia_turtle::serializer::_pretty::DedupIterator::next (stepped once per statement by build_subject_types)"],
        bounds=["4 symbolic items, per-function recursion bound 1"],
        assumptions=["visibility of _pretty / Dedup / DedupIterator raised to pub(crate) in the overlay copy (textual substitution, each required to match exactly once)"],
    )
    return [s1, s2, s3]


def run(ctx):
    failing = []
    for sp in specs(ctx.tier):
        res = kprop.run(ctx, sp) or []
        for r in res:
            if r["outcome"] == "fail":
                failing.append(r["harness"].split("::")[-1])
    if not failing:
        return
    # native confirmation: 10^6 elements, 2 MiB stack, dev and release
    scen = {}
    for h in failing:
        s = (ITER.get(h) or QS.get(h) or DD.get(h))[1]
        scen.setdefault(s, h)
    open_keys = {e["key"]: e for e in ctx.open_findings()}
    try:
        rep = rp.Replay(ctx.id, profiles=("dev", "release"))
    except RuntimeError as e:
        ctx.inconc("replay crate did not build: %s" % str(e)[-500:])
        return
    try:
        for s, h in sorted(scen.items()):
            n = 1000000
            outcome = {}
            # which position's rejection makes the function recurse is not known: try every residual position
            if s == "ttl_pretty_subject":
                variants = [s]
                n = 100000   # the pretty serializer is super-linear: 10^5 statements of one subject take ~20 s in dev
            elif s == "nt_quoted_string":
                variants = [s + ":" + c for c in "nrqb"]   # LF, CR, quote, backslash
            elif s.endswith("_spo"):
                variants = [s + ":" + p for p in "spo"]
            elif s.endswith("_bc") or s.endswith("_cd"):
                variants = [s + ":" + p for p in "po"]
            elif s.endswith("_gspo"):
                variants = [s + ":" + p for p in "gspo"]
            else:
                variants = [s + ":" + p for p in "spo"]
            for v in variants:
                for prof in ("dev", "release"):
                    rc, out = rep.run(prof, ["c16", v, str(n)], timeout=900)
                    outcome["%s/%s" % (v, prof)] = rc
            crashed = [p for p, rc in outcome.items() if rc is not None and (rc < 0 or rc >= 128)]
            ctx.coverage["traces_validated_against_impl"] = ctx.coverage.get("traces_validated_against_impl", 0) + len(outcome)
            wit = {"property": "C16", "harness": h, "scenario": s, "n": n, "exit_status": outcome, "crashed_variants": crashed,
                   "kind": "unbounded-recursion", "what": "recursion unwinding assertion failed for bound 2; native run with 10^6 elements on a 2 MiB stack"}
            wp = ctx.write_witness(s, wit)
            log("[C16] native replay %s n=%d: %s" % (s, n, outcome))
            if crashed:
                key = "C16:%s" % s
                if key in open_keys:
                    ctx.known("%s [%s]" % (open_keys[key]["what"], key))
                else:
                    ctx.violation(wp, "%s: recursion per element (CBMC recursion unwinding assertion) and stack overflow with %d elements on a 2 MiB stack in %s build" % (s, n, ", ".join(crashed)))
            else:
                ctx.inconc("%s: recursion unwinding assertion failed but 10^6 elements did not overflow a 2 MiB stack (%s)" % (s, outcome))
    finally:
        rep.close()


def replay(ctx, path):
    import json
    w = json.load(open(path))
    rep = rp.Replay(ctx.id, profiles=("dev", "release"))
    try:
        bad = []
        for prof in ("dev", "release"):
            for v in (w.get("crashed_variants") or [w["scenario"]]):
                v = v.split("/")[0]
                rc, out = rep.run(prof, ["c16", v, str(w.get("n", 1000000))], timeout=900)
                log("%s %s: exit %s" % (v, prof, rc))
                if rc is not None and (rc < 0 or rc >= 128):
                    bad.append(prof)
        if bad:
            log("VIOLATION property=C16 replay=%s" % path)
            return 1
        return 0
    finally:
        rep.close()
