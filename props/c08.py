"""C08 (partial) — every token a parser can yield is accepted by the toolkit's own validator, so that the
Trusted<T> accessors (new_unchecked: validate-and-unwrap under debug assertions, always for LanguageTag) can
neither panic nor hand out an invalid 'validated' value. Decided by engine R, unbounded:
   L(grammar terminal) ⊆ L(validator)
The left-hand side is the specification, so every witness is replayed through the REAL parsers: a VIOLATION needs
the real parser to yield the token AND the accessor to panic / the validator to reject it. Differences that the
real parser itself rejects are 'reference gaps': they are named classes, assumed away, and a guard replays class
representatives on every run (if the parser ever starts yielding them, that is reported)."""
import os
import re
import subprocess
import time
from engine import rprop, replay as rp
from engine.rx import solver
from engine.rx import extract, rustre, ast as A
from engine.common import log
from refgrammar import w3c, rfc3987, bcp47
from props import _rt

# Reference gaps: (obligation, key, class regex in Rust-regex syntax, representatives, what)
GAPS = [
    ("ttl_bnode_label_accepted", "gap:consecutive-dots", r"^(?:[^.]|\.)*\.\.(?:[^.]|\.)*$", ["a..b", "0..-", "a...b", "_.._"],
     "Turtle's BLANK_NODE_LABEL allows consecutive dots (a..b); BNODE_ID does not; Rio rejects such labels"),
    ("nt_bnode_label_accepted", "gap:consecutive-dots", r"^(?:[^.]|\.)*\.\.(?:[^.]|\.)*$", ["a..b", "0..-"],
     "N-Triples BLANK_NODE_LABEL allows consecutive dots; Rio rejects such labels"),
    ("nt_bnode_label_accepted", "gap:colon-in-label", r"^[^:]*:(?:[^:]|:)*$", ["a:b", ":", ":a", "a:"],
     "N-Triples 1.1 PN_CHARS_U contains ':' (a:b); BNODE_ID (Turtle's production) does not; Rio rejects such labels"),
]


def pname_expansion(ctx, rep, repo_iri, n_witnesses):
    """Two-variable obligation: for every namespace IRI s1 (RFC 3987 IRI, what a @prefix declaration accepts) and every
    decoded local name s2 (Turtle PN_LOCAL after unescaping), the expansion s1++s2 — which the Turtle-family parsers hand
    out as an IRI without re-validation — is accepted by the IRI validator. Witness pairs are replayed through the real
    Turtle parser (document `@prefix p: <s1> . <s> <p> p:s2 .`)."""
    from engine.rx.ast import cset, sunion, sminus, cat, alt, star
    esc_nopct = sminus(w3c.PN_LOCAL_ESC_CHARS, cset("%"))
    first = sunion(w3c.PN_CHARS_U, cset(":"), w3c.DIG, esc_nopct)
    rest = sunion(w3c.PN_CHARS, cset(".:"), esc_nopct)
    local = cat(alt(first, w3c.PERCENT), star(alt(rest, w3c.PERCENT)))
    al = A.Alphabet([repo_iri, rfc3987.IRI, local])
    res = {"obligation": "pname_expansion_valid", "kind": "concat-subset", "A": "RFC 3987 IRI (namespace) ++ decoded Turtle PN_LOCAL", "B": "L(IRI_REGEX_SRC)",
           "minterms": al.n, "witnesses": [], "queries": 0, "verdict": None,
           "meaning": "an expanded prefixed name is a valid IRI, so Trusted::iri() cannot panic / wrap an invalid IRI"}
    blocked = []
    t0 = time.time()
    while len(res["witnesses"]) < n_witnesses:
        asserts = ['(= s (str.++ s1 s2))', '(str.in_re s %s)' % al.smt_sigma_star(), '(str.in_re s1 %s)' % al.smt(rfc3987.IRI),
                   '(str.in_re s2 %s)' % al.smt(local), '(not (str.in_re s %s))' % al.smt(repo_iri)]
        for b in blocked:
            asserts.append('(not (= s "%s"))' % "".join(al.smt_char(k) for k in b))
        script = solver.script_header(60000) + "(declare-const s1 String)(declare-const s2 String)\n" + \
            "\n".join("(assert %s)" % a for a in asserts) + "\n(check-sat)\n(get-value (s1 s2))\n"
        p = subprocess.run([solver.Z3_PRIMARY, "-in"], input=script, stdout=subprocess.PIPE, stderr=subprocess.STDOUT, text=True, timeout=180)
        res["queries"] += 1
        out = p.stdout.strip()
        if out.startswith("unsat"):
            if not res["witnesses"]:
                res["verdict"] = "unsat"
            break
        m = re.search(r'\(\(s1 "((?:[^"]|"")*)"\)\s*\(s2 "((?:[^"]|"")*)"\)\)', out)
        if not out.startswith("sat") or not m:
            res["verdict"] = "inconclusive:" + out[:80]
            break
        k1, k2 = al.decode_model_string(m.group(1)), al.decode_model_string(m.group(2))
        s1, s2 = al.concretize(k1), al.concretize(k2)
        ok = A.matches(rfc3987.IRI, s1) and A.matches(local, s2) and not A.matches(repo_iri, s1 + s2)
        ans = _rt.rt_eval(rep, [("parse", "ttl_pname", s1 + "\x1f" + s2)])[0]
        res["witnesses"].append({"namespace": s1, "local": s2, "expansion": s1 + s2, "matcher_agrees": ok,
                                 "replay": {"reproduced": True if ans.startswith("VIOLATION") else (None if ans.startswith("n/a") else False), "detail": ans[:300]}})
        res["verdict"] = "sat"
        blocked.append(k1 + k2)
        if not ok:
            res["verdict"] = "inconclusive:solver-and-matcher-disagree"
            break
    res["solver_s"] = round(time.time() - t0, 2)
    return res


def run(ctx):
    names = ["BNODE_ID", "LANG_TAG", "VARNAME", "PN_PREFIX", "IRI_REGEX_SRC", "IRELATIVE_REF_REGEX_SRC"]
    try:
        src = {n: extract.extract(n) for n in names}
        asts = {n: rustre.parse(s) for n, s in src.items()}
    except (extract.ExtractError, rustre.Unsupported, ValueError) as e:
        ctx.inconc("cannot extract/parse validator patterns: %s" % e)
        ctx.level = "proof"
        ctx.coverage.update({"obligations": 1, "discharged": 0, "checker_cmd": "z3-new -in", "trusted_base": [], "samples": [{"error": str(e)}]})
        return
    rep = rp.Replay(ctx.id, profiles=("dev", "release"))
    try:
        iriref = A.alt(asts["IRI_REGEX_SRC"], asts["IRELATIVE_REF_REGEX_SRC"])
        # what a strict parser yields as an IRI: an absolute IRI (RFC 3987) – the parsers resolve against a base or demand absolute
        obls = [
            rprop.Obl("ttl_bnode_label_accepted", "subset", w3c.TTL_BNODE_LABEL, asts["BNODE_ID"], "Turtle BLANK_NODE_LABEL (after '_:')", "L(BNODE_ID)",
                      _rt.confirmer(rep, [("parse", "ttl_bnode")]), "Trusted::bnode_id() cannot panic / yield an invalid BnodeId"),
            rprop.Obl("nt_bnode_label_accepted", "subset", w3c.NT_BNODE_LABEL, asts["BNODE_ID"], "N-Triples BLANK_NODE_LABEL (after '_:')", "L(BNODE_ID)",
                      _rt.confirmer(rep, [("parse", "nt_bnode")]), "same, for the N-Triples/N-Quads parsers"),
            # Rio validates language tags against BCP47 well-formedness before yielding them, so the tokens that reach the
            # validator are LANGTAG ∩ BCP47 = BCP47 (C03 proves BCP47 ⊆ LANGTAG); non-BCP47 LANGTAGs are guarded below.
            rprop.Obl("langtag_accepted", "subset", bcp47.Language_Tag, asts["LANG_TAG"], "well-formed BCP47 Language-Tag (what Rio yields after '@')", "L(LANG_TAG)",
                      _rt.confirmer(rep, [("parse", "ttl_lang"), ("parse", "nt_lang")]), "Trusted::language_tag() (always validated) cannot panic"),
            rprop.Obl("varname_accepted", "subset", w3c.VARNAME, asts["VARNAME"], "SPARQL VARNAME", "L(VARNAME)",
                      _rt.confirmer(rep, [("parse", "gtrig_var")]), "Trusted::variable() cannot panic"),
            rprop.Obl("pn_prefix_accepted", "subset", w3c.PN_PREFIX, asts["PN_PREFIX"], "Turtle PN_PREFIX", "L(PN_PREFIX)",
                      _rt.confirmer(rep, [("parse", "ttl_prefix")]), "prefixes read from a document are valid Prefix values"),
            rprop.Obl("absolute_iri_accepted", "subset", rfc3987.IRI, asts["IRI_REGEX_SRC"], "RFC 3987 IRI", "L(IRI_REGEX_SRC)",
                      _rt.confirmer(rep, [("parse", "nt_iri"), ("parse", "ttl_iri")]), "Trusted::iri() cannot panic on an absolute IRI yielded by a strict parser"),
            rprop.Obl("iri_reference_accepted", "subset", rfc3987.IRI_reference, iriref, "RFC 3987 IRI-reference", "L(IRI_REGEX_SRC) ∪ L(IRELATIVE_REF_REGEX_SRC)",
                      _rt.confirmer(rep, [("parse", "ttl_iri")]), "generalized parsers: any IRI reference is accepted by IriRef"),
        ]
        # reference gaps: guard first (the real parser must still reject every representative), then assume away
        known_classes = {}
        guard_reqs = []
        for obl, key, rx, reps, what in GAPS:
            kind = "ttl_bnode" if obl.startswith("ttl") else "nt_bnode"
            for s in reps:
                guard_reqs.append((obl, key, ("parse", kind, s)))
        # guard for the BCP47 assumption: LANGTAG tokens that are not well-formed BCP47 must still be rejected by the real parsers
        for s_ in ("a-0", "abcdefghi", "en-a", "a1"):
            guard_reqs.append(("langtag_accepted", "assume:rio-yields-only-bcp47", ("parse", "ttl_lang", s_)))
            guard_reqs.append(("langtag_accepted", "assume:rio-yields-only-bcp47", ("parse", "nt_lang", s_)))
        ans = _rt.rt_eval(rep, [g[2] for g in guard_reqs])
        for (obl, key, req), a in zip(guard_reqs, ans):
            if a.startswith("VIOLATION"):
                wp = ctx.write_witness("guard-%s" % req[1], {"property": "C08", "mode": "parse", "kind": req[1], "string": req[2], "detail": a})
                ctx.violation(wp, "reference-gap guard: the real parser now yields %r (%s): %s" % (req[2], key, a[:300]))
            elif not a.startswith("n/a") and key.startswith("assume:"):
                ctx.inconc("assumption %s does not hold: the real parser yields %r (%s)" % (key, req[2], a))
            elif not a.startswith("n/a"):
                # parser accepts it and validator is fine with it: then the gap class no longer describes the validator; do not assume it away
                ctx.inconc("reference-gap guard: %r (%s) is now accepted end-to-end (%s); gap class is stale" % (req[2], key, a))
        for obl, key, rx, reps, what in GAPS:
            known_classes.setdefault(obl, []).append((key, rustre.parse(rx), what))
            ctx.assumptions.append("reference gap %s assumed away in %s (guarded by replay of %s): %s" % (key, obl, reps, what))
        for e in ctx.open_findings():
            if "kind" not in e or "witness" not in e:
                continue  # call-site findings (pname expansion) are handled with their obligation
            c, detail = _rt.confirmer(rep, [("parse", e["kind"])])(e["witness"])
            if c:
                ctx.known("%s [%s]" % (e["what"], e["key"]))
                known_classes.setdefault(e["obligation"], []).append((e["key"], rustre.parse(e["class_regex"]), e["what"]))
        results = rprop.run(ctx, obls, known_classes, max_witnesses=(6 if ctx.tier == "quick" else 20),
                            trusted=["Rio's lexers (only exercised in the replay)", "reference-gap classes (guarded natively each run)"])
        # prefixed-name expansion (two string variables)
        pn = pname_expansion(ctx, rep, asts["IRI_REGEX_SRC"], 3 if ctx.tier == "quick" else 10)
        from engine.common import log as _log
        _log("[%s]   %-38s %-12s minterms=%-3d %.2fs %s" % (ctx.id, pn["obligation"], pn["verdict"], pn["minterms"], pn["solver_s"],
                                                      ("witness %r + %r" % (pn["witnesses"][0]["namespace"], pn["witnesses"][0]["local"])) if pn["witnesses"] else ""))
        ctx.coverage["samples"].append(pn)
        ctx.coverage["queries"] = ctx.coverage.get("queries", 0) + pn["queries"]
        if pn["verdict"] == "unsat":
            ctx.coverage["obligations"] += 1
            ctx.coverage["discharged"] += 1
        else:
            # not part of the proof-level count: reported as KNOWN-FINDING / VIOLATION below
            ctx.coverage["obligations_outside_the_proof_count"] = [{"obligation": pn["obligation"], "verdict": pn["verdict"]}]
        if pn["verdict"] == "unsat":
            pass
        elif pn["verdict"] == "sat":
            conf = [w for w in pn["witnesses"] if w["replay"]["reproduced"]]
            key = "C08:pname-expansion-unvalidated"
            openf = {e["key"]: e for e in ctx.open_findings()}
            if conf and key in openf:
                # known finding, identified by its call site (prefixed-name expansion in the Turtle-family parsers); its stored witness must still fail
                e = openf[key]
                a = _rt.rt_eval(rep, [("parse", "ttl_pname", e["witness_namespace"] + "\x1f" + e["witness_local"])])[0]
                if a.startswith("VIOLATION"):
                    ctx.known("%s [%s]" % (e["what"], key))
                    ctx.assumptions.append("known finding %s: obligation pname_expansion_valid is reported as KNOWN-FINDING, not as a violation" % key)
                    pn["known_finding"] = key
                else:
                    w = conf[0]
                    wp = ctx.write_witness("pname_expansion_valid", {"property": "C08", "mode": "parse", "kind": "ttl_pname", "string": w["namespace"] + "\x1f" + w["local"], "detail": w["replay"]["detail"]})
                    ctx.violation(wp, "pname_expansion_valid: the stored witness of %s no longer fails but %r + %r does: %s" % (key, w["namespace"], w["local"], w["replay"]["detail"][:200]))
            elif conf:
                w = conf[0]
                wp = ctx.write_witness("pname_expansion_valid", {"property": "C08", "mode": "parse", "kind": "ttl_pname", "string": w["namespace"] + "\x1f" + w["local"], "detail": w["replay"]["detail"]})
                ctx.violation(wp, "pname_expansion_valid: `@prefix p: <%s>` + `p:%s` makes the real parser %s" % (w["namespace"], w["local"], w["replay"]["detail"][:200]))
            else:
                ctx.inconc("pname_expansion_valid: solver witnesses do not reproduce through the real Turtle parser: %s" % [w["replay"]["detail"][:80] for w in pn["witnesses"]])
        else:
            ctx.inconc("pname_expansion_valid: %s" % pn["verdict"])
        ctx.coverage["traces_validated_against_impl"] = len(guard_reqs) + sum(len(r["witnesses"]) for r in results) + len(pn["witnesses"])
        for r in results:
            if r["verdict"] == "unsat":
                continue
            if r["verdict"] != "sat":
                ctx.inconc("%s: %s" % (r["obligation"], r["verdict"]))
                continue
            conf = [w for w in r["witnesses"] if (w.get("replay") or {}).get("reproduced")]
            if conf:
                w = conf[0]
                wp = ctx.write_witness(r["obligation"], {"property": "C08", "mode": "parse", "string": w["string"], "escaped": w["escaped"],
                                                         "kind": {"ttl_bnode_label_accepted": "ttl_bnode", "nt_bnode_label_accepted": "nt_bnode", "langtag_accepted": "ttl_lang",
                                                                  "varname_accepted": "gtrig_var", "pn_prefix_accepted": "ttl_prefix", "absolute_iri_accepted": "nt_iri",
                                                                  "iri_reference_accepted": "ttl_iri"}[r["obligation"]], "detail": w["replay"]["detail"]})
                ctx.violation(wp, "%s: the real parser yields %r and %s" % (r["obligation"], w["string"], w["replay"]["detail"][:300]))
            else:
                ctx.inconc("%s: validator is narrower than the grammar terminal (e.g. %r) but none of %d witnesses is yielded by the real parser; "
                           "not a proof, not a violation — add a guarded reference-gap class or fix the reference" % (r["obligation"], r["witnesses"][0]["string"], len(r["witnesses"])))
        # dev AND release: the panic path only exists with debug assertions, the invalid-value path in both
        rel_reqs = [("parse", "ttl_bnode", "a.b"), ("parse", "ttl_lang", "en-US"), ("parse", "nt_iri", "http://example.org/é")]
        rc, out = rep.run("release", ["rt"], stdin="\n".join("%s\t%s\t%s" % (m, k, rprop.esc(s)) for m, k, s in rel_reqs) + "\n")
        ctx.coverage["release_profile_smoke"] = out.split("\n")[:3]
        ctx.coverage["functions_encoded"] = ["validators BNODE_ID, LANG_TAG, VARNAME, PN_PREFIX, IRI_REGEX_SRC, IRELATIVE_REF_REGEX_SRC behind rio::model::Trusted<T> accessors"]
        ctx.coverage["outside_the_claim"] = ["termination, stack depth, totality of the Rio/quick-xml/json-ld back-ends on arbitrary bytes", "RDF/XML, JSON-LD, invalid UTF-8, nesting"]
    finally:
        rep.close()


def replay(ctx, path):
    import json
    w = json.load(open(path))
    rep = rp.Replay(ctx.id, profiles=("dev",))
    try:
        a = _rt.rt_eval(rep, [("parse", w["kind"], w["string"])])[0]
        log(a)
        if a.startswith("VIOLATION"):
            log("VIOLATION property=C08 replay=%s" % path)
            return 1
        return 0
    finally:
        rep.close()
