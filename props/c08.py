"""C08 (partial) — every token a parser can yield is accepted by the toolkit's own validator, so that the
Trusted<T> accessors (new_unchecked: validate-and-unwrap under debug assertions, always for LanguageTag) can
neither panic nor hand out an invalid 'validated' value. Decided by engine R, unbounded:
   L(grammar terminal) ⊆ L(validator)
The left-hand side is the specification, so every witness is replayed through the REAL parsers: a VIOLATION needs
the real parser to yield the token AND the accessor to panic / the validator to reject it. Differences that the
real parser itself rejects are 'reference gaps': they are named classes, assumed away, and a guard replays class
representatives on every run (if the parser ever starts yielding them, that is reported)."""
import os
from engine import rprop, replay as rp
from engine.rx import extract, rustre, ast as A
from engine.common import log
from refgrammar import w3c, rfc3987, bcp47
from props import _rt

# Reference gaps: (obligation, key, class regex in Rust-regex syntax, representatives, what)
GAPS = [
    ("ttl_bnode_label_accepted", "gap:consecutive-dots", r"^(?:[^.]|\.)*\.\.(?:[^.]|\.)*$", ["a..b", "0..-", "a...b", "_.._"],
     "Turtle's BLANK_NODE_LABEL allows consecutive dots (a..b); BNODE_ID does not; Rio rejects such labels"),
    ("nt_bnode_label_accepted", "gap:consecutive-dots", r"^(?:[^.]|\.)*\.\.(?:[^.]|\.)*$", ["a..b", "0..-"],
     "N-Triples BLANK_NODE_LABEL allows consecutive dots; Rio rejects such labels"),
    ("nt_bnode_label_accepted", "gap:colon-in-label", r"^[^:]*:(?:[^:]|:)*$", ["a:b", ":", ":a", "a:"],
     "N-Triples 1.1 PN_CHARS_U contains ':' (a:b); BNODE_ID (Turtle's production) does not; Rio rejects such labels"),
]


def run(ctx):
    names = ["BNODE_ID", "LANG_TAG", "VARNAME", "PN_PREFIX", "IRI_REGEX_SRC", "IRELATIVE_REF_REGEX_SRC"]
    try:
        src = {n: extract.extract(n) for n in names}
        asts = {n: rustre.parse(s) for n, s in src.items()}
    except (extract.ExtractError, rustre.Unsupported, ValueError) as e:
        ctx.inconc("cannot extract/parse validator patterns: %s" % e)
        ctx.level = "proof"
        ctx.coverage.update({"obligations": 1, "discharged": 0, "checker_cmd": "z3-new -in", "trusted_base": [], "samples": [{"error": str(e)}]})
        return
    rep = rp.Replay(ctx.id, profiles=("dev", "release"))
    try:
        iriref = A.alt(asts["IRI_REGEX_SRC"], asts["IRELATIVE_REF_REGEX_SRC"])
        # what a strict parser yields as an IRI: an absolute IRI (RFC 3987) – the parsers resolve against a base or demand absolute
        obls = [
            rprop.Obl("ttl_bnode_label_accepted", "subset", w3c.TTL_BNODE_LABEL, asts["BNODE_ID"], "Turtle BLANK_NODE_LABEL (after '_:')", "L(BNODE_ID)",
                      _rt.confirmer(rep, [("parse", "ttl_bnode")]), "Trusted::bnode_id() cannot panic / yield an invalid BnodeId"),
            rprop.Obl("nt_bnode_label_accepted", "subset", w3c.NT_BNODE_LABEL, asts["BNODE_ID"], "N-Triples BLANK_NODE_LABEL (after '_:')", "L(BNODE_ID)",
                      _rt.confirmer(rep, [("parse", "nt_bnode")]), "same, for the N-Triples/N-Quads parsers"),
            # Rio validates language tags against BCP47 well-formedness before yielding them, so the tokens that reach the
            # validator are LANGTAG ∩ BCP47 = BCP47 (C03 proves BCP47 ⊆ LANGTAG); non-BCP47 LANGTAGs are guarded below.
            rprop.Obl("langtag_accepted", "subset", bcp47.Language_Tag, asts["LANG_TAG"], "well-formed BCP47 Language-Tag (what Rio yields after '@')", "L(LANG_TAG)",
                      _rt.confirmer(rep, [("parse", "ttl_lang"), ("parse", "nt_lang")]), "Trusted::language_tag() (always validated) cannot panic"),
            rprop.Obl("varname_accepted", "subset", w3c.VARNAME, asts["VARNAME"], "SPARQL VARNAME", "L(VARNAME)",
                      _rt.confirmer(rep, [("parse", "gtrig_var")]), "Trusted::variable() cannot panic"),
            rprop.Obl("pn_prefix_accepted", "subset", w3c.PN_PREFIX, asts["PN_PREFIX"], "Turtle PN_PREFIX", "L(PN_PREFIX)",
                      _rt.confirmer(rep, [("parse", "ttl_prefix")]), "prefixes read from a document are valid Prefix values"),
            rprop.Obl("absolute_iri_accepted", "subset", rfc3987.IRI, asts["IRI_REGEX_SRC"], "RFC 3987 IRI", "L(IRI_REGEX_SRC)",
                      _rt.confirmer(rep, [("parse", "nt_iri"), ("parse", "ttl_iri")]), "Trusted::iri() cannot panic on an absolute IRI yielded by a strict parser"),
            rprop.Obl("iri_reference_accepted", "subset", rfc3987.IRI_reference, iriref, "RFC 3987 IRI-reference", "L(IRI_REGEX_SRC) ∪ L(IRELATIVE_REF_REGEX_SRC)",
                      _rt.confirmer(rep, [("parse", "ttl_iri")]), "generalized parsers: any IRI reference is accepted by IriRef"),
        ]
        # reference gaps: guard first (the real parser must still reject every representative), then assume away
        known_classes = {}
        guard_reqs = []
        for obl, key, rx, reps, what in GAPS:
            kind = "ttl_bnode" if obl.startswith("ttl") else "nt_bnode"
            for s in reps:
                guard_reqs.append((obl, key, ("parse", kind, s)))
        # guard for the BCP47 assumption: LANGTAG tokens that are not well-formed BCP47 must still be rejected by the real parsers
        for s_ in ("a-0", "abcdefghi", "en-a", "a1"):
            guard_reqs.append(("langtag_accepted", "assume:rio-yields-only-bcp47", ("parse", "ttl_lang", s_)))
            guard_reqs.append(("langtag_accepted", "assume:rio-yields-only-bcp47", ("parse", "nt_lang", s_)))
        ans = _rt.rt_eval(rep, [g[2] for g in guard_reqs])
        for (obl, key, req), a in zip(guard_reqs, ans):
            if a.startswith("VIOLATION"):
                wp = ctx.write_witness("guard-%s" % req[1], {"property": "C08", "mode": "parse", "kind": req[1], "string": req[2], "detail": a})
                ctx.violation(wp, "reference-gap guard: the real parser now yields %r (%s): %s" % (req[2], key, a[:300]))
            elif not a.startswith("n/a") and key.startswith("assume:"):
                ctx.inconc("assumption %s does not hold: the real parser yields %r (%s)" % (key, req[2], a))
            elif not a.startswith("n/a"):
                # parser accepts it and validator is fine with it: then the gap class no longer describes the validator; do not assume it away
                ctx.inconc("reference-gap guard: %r (%s) is now accepted end-to-end (%s); gap class is stale" % (req[2], key, a))
        for obl, key, rx, reps, what in GAPS:
            known_classes.setdefault(obl, []).append((key, rustre.parse(rx), what))
            ctx.assumptions.append("reference gap %s assumed away in %s (guarded by replay of %s): %s" % (key, obl, reps, what))
        for e in ctx.open_findings():
            c, detail = _rt.confirmer(rep, [("parse", e["kind"])])(e["witness"])
            if c:
                ctx.known("%s [%s]" % (e["what"], e["key"]))
                known_classes.setdefault(e["obligation"], []).append((e["key"], rustre.parse(e["class_regex"]), e["what"]))
        results = rprop.run(ctx, obls, known_classes, max_witnesses=(6 if ctx.tier == "quick" else 20),
                            trusted=["Rio's lexers (only exercised in the replay)", "reference-gap classes (guarded natively each run)"])
        ctx.coverage["traces_validated_against_impl"] = len(guard_reqs) + sum(len(r["witnesses"]) for r in results)
        for r in results:
            if r["verdict"] == "unsat":
                continue
            if r["verdict"] != "sat":
                ctx.inconc("%s: %s" % (r["obligation"], r["verdict"]))
                continue
            conf = [w for w in r["witnesses"] if (w.get("replay") or {}).get("reproduced")]
            if conf:
                w = conf[0]
                wp = ctx.write_witness(r["obligation"], {"property": "C08", "mode": "parse", "string": w["string"], "escaped": w["escaped"],
                                                         "kind": {"ttl_bnode_label_accepted": "ttl_bnode", "nt_bnode_label_accepted": "nt_bnode", "langtag_accepted": "ttl_lang",
                                                                  "varname_accepted": "gtrig_var", "pn_prefix_accepted": "ttl_prefix", "absolute_iri_accepted": "nt_iri",
                                                                  "iri_reference_accepted": "ttl_iri"}[r["obligation"]], "detail": w["replay"]["detail"]})
                ctx.violation(wp, "%s: the real parser yields %r and %s" % (r["obligation"], w["string"], w["replay"]["detail"][:300]))
            else:
                ctx.inconc("%s: validator is narrower than the grammar terminal (e.g. %r) but none of %d witnesses is yielded by the real parser; "
                           "not a proof, not a violation — add a guarded reference-gap class or fix the reference" % (r["obligation"], r["witnesses"][0]["string"], len(r["witnesses"])))
        # dev AND release: the panic path only exists with debug assertions, the invalid-value path in both
        rel_reqs = [("parse", "ttl_bnode", "a.b"), ("parse", "ttl_lang", "en-US"), ("parse", "nt_iri", "http://example.org/é")]
        rc, out = rep.run("release", ["rt"], stdin="\n".join("%s\t%s\t%s" % (m, k, rprop.esc(s)) for m, k, s in rel_reqs) + "\n")
        ctx.coverage["release_profile_smoke"] = out.split("\n")[:3]
        ctx.coverage["functions_encoded"] = ["validators BNODE_ID, LANG_TAG, VARNAME, PN_PREFIX, IRI_REGEX_SRC, IRELATIVE_REF_REGEX_SRC behind rio::model::Trusted<T> accessors"]
        ctx.coverage["outside_the_claim"] = ["termination, stack depth, totality of the Rio/quick-xml/json-ld back-ends on arbitrary bytes", "RDF/XML, JSON-LD, invalid UTF-8, nesting"]
    finally:
        rep.close()


def replay(ctx, path):
    import json
    w = json.load(open(path))
    rep = rp.Replay(ctx.id, profiles=("dev",))
    try:
        a = _rt.rt_eval(rep, [("parse", w["kind"], w["string"])])[0]
        log(a)
        if a.startswith("VIOLATION"):
            log("VIOLATION property=C08 replay=%s" % path)
            return 1
        return 0
    finally:
        rep.close()
