"""C09 — IRI validation is exactly RFC 3987 and agrees with the resolver (engine R, unbounded)."""
import os
from engine import rprop, replay as rp
from engine.rx import extract, rustre, ast as A
from engine.common import VERIF, log
from refgrammar import rfc3987

WIRING = [
    ("iri/src/_regex.rs", r"static IRI_REGEX:\s*LazyLock<Regex>\s*=\s*LazyLock::new\(\|\|\s*Regex::new\(IRI_REGEX_SRC\)\.unwrap\(\)\)"),
    ("iri/src/_regex.rs", r"static IRELATIVE_REF_REGEX:\s*LazyLock<Regex>\s*=\s*LazyLock::new\(\|\|\s*Regex::new\(IRELATIVE_REF_REGEX_SRC\)\.unwrap\(\)\)"),
    ("iri/src/_regex.rs", r"RegexSet::new\(\[IRI_REGEX_SRC,\s*IRELATIVE_REF_REGEX_SRC\]\)"),
    ("iri/src/_regex.rs", r"pub fn is_valid_iri_ref\(txt: &str\) -> bool \{\s*IRI_REF_REGEX\.is_match\(txt\)\s*\}"),
    ("iri/src/_regex.rs", r"pub fn is_absolute_iri_ref\(txt: &str\) -> bool \{\s*IRI_REGEX\.is_match\(txt\)\s*\}"),
    ("iri/src/_regex.rs", r"pub fn is_relative_iri_ref\(txt: &str\) -> bool \{\s*IRELATIVE_REF_REGEX\.is_match\(txt\)\s*\}"),
    ("iri/src/_wrapper.rs", r"pub fn new\(iri: T\) -> Result<Self, InvalidIri> \{\s*if is_absolute_iri_ref\(iri\.borrow\(\)\) \{\s*Ok\(Iri\(iri\)\)"),
    ("iri/src/_wrapper.rs", r"pub fn new\(iri: T\) -> Result<Self, InvalidIri> \{\s*if is_valid_iri_ref\(iri\.borrow\(\)\) \{\s*Ok\(IriRef\(iri\)\)"),
    ("api/src/ns/_namespace.rs", r"IriRef::new\(ns_term\.to_string\(\)\)\?;\s*Ok\(ns_term\)"),
]


def load_corpus():
    out = []
    with open(os.path.join(VERIF, "corpus", "iri.txt"), encoding="utf-8") as f:
        out += [l.rstrip("\n") for l in f]
    import re
    with open(os.path.join(VERIF, "corpus", "iri_escaped.txt")) as f:
        for l in f:
            l = l.rstrip("\n")
            out.append(re.sub(r"\\u\{([0-9a-fA-F]+)\}", lambda m: chr(int(m.group(1), 16)), l))
    return sorted(set(out))


def c09_eval(rep, strings):
    """real build: [(iri_ok, iriref_ok, relref_ok, base, ox_abs, ox_ref)] for each string"""
    rc, out = rep.run("dev", ["c09"], stdin="\n".join(rprop.esc(s) for s in strings) + "\n", timeout=600)
    rows = [l.split() for l in out.strip().splitlines()]
    if rc != 0 or len(rows) != len(strings):
        raise RuntimeError("c09 replay failed rc=%s out=%s" % (rc, out[-300:]))
    return [(r[0] == "1", r[1] == "1", r[2] == "1", r[3], r[4] == "1", r[5] == "1") for r in rows]


def namespace_pairs(repo_ref, n_each):
    """Solver-generated inputs for Namespace::get: pairs (ns, suffix) with ns a valid IRI reference and suffix over
    [A-Za-z0-9_-]+ such that ns++suffix is INVALID (n_each pairs) resp. VALID (n_each pairs)."""
    import re as _re
    import subprocess as _sp
    from engine.rx import solver as _solver
    from engine.rx.ast import cset, plus
    sfx = plus(cset(("A", "Z"), ("a", "z"), ("0", "9"), "_-"))
    ref = A.alt(rfc3987.IRI, rfc3987.irelative_ref)
    al = A.Alphabet([ref, sfx])
    out = []
    for want_valid in (False, True):
        blocked = []
        for _ in range(n_each):
            asserts = ['(= s (str.++ s1 s2))', '(str.in_re s %s)' % al.smt_sigma_star(), '(str.in_re s1 %s)' % al.smt(ref), '(>= (str.len s1) 3)',
                       '(str.in_re s2 %s)' % al.smt(sfx), ('(str.in_re s %s)' if want_valid else '(not (str.in_re s %s))') % al.smt(ref)]
            for b in blocked:
                asserts.append('(not (= s1 "%s"))' % "".join(al.smt_char(k) for k in b))
            script = _solver.script_header(30000) + "(declare-const s1 String)(declare-const s2 String)\n" + \
                "\n".join("(assert %s)" % a for a in asserts) + "\n(check-sat)\n(get-value (s1 s2))\n"
            p = _sp.run([_solver.Z3_PRIMARY, "-in"], input=script, stdout=_sp.PIPE, stderr=_sp.STDOUT, text=True, timeout=120)
            m = _re.search(r'\(\(s1 "((?:[^"]|"")*)"\)\s*\(s2 "((?:[^"]|"")*)"\)\)', p.stdout)
            if not p.stdout.startswith("sat") or not m:
                break
            k1, k2 = al.decode_model_string(m.group(1)), al.decode_model_string(m.group(2))
            out.append((al.concretize(k1), al.concretize(k2), want_valid))
            blocked.append(k1)
    return out


_RFC3986_B = None


def rfc3986_resolve(base, ref):
    """RFC 3986 section 5.2 (strict) on an absolute base and a reference, both already known to be valid: the oracle."""
    import re
    global _RFC3986_B
    if _RFC3986_B is None:
        _RFC3986_B = re.compile(r"^(([^:/?#]+):)?(//([^/?#]*))?([^?#]*)(\?([^#]*))?(#(.*))?$", re.S)

    def parse(x):
        m = _RFC3986_B.match(x)
        return (m.group(2), m.group(4), m.group(5), m.group(7), m.group(9))

    def remove_dots(path):
        inp, out = path, []
        while inp:
            if inp.startswith("../"):
                inp = inp[3:]
            elif inp.startswith("./"):
                inp = inp[2:]
            elif inp.startswith("/./"):
                inp = inp[2:]
            elif inp == "/.":
                inp = "/"
            elif inp.startswith("/../"):
                inp = inp[3:]
                if out:
                    out.pop()
            elif inp == "/..":
                inp = "/"
                if out:
                    out.pop()
            elif inp in (".", ".."):
                inp = ""
            else:
                i = inp.find("/", 1)
                if i < 0:
                    i = len(inp)
                out.append(inp[:i])
                inp = inp[i:]
        return "".join(out)

    bs, ba, bp, bq, _bf = parse(base)
    rs, ra, rp_, rq, rf = parse(ref)
    if rs is not None:
        ts, ta, tp, tq = rs, ra, remove_dots(rp_), rq
    else:
        if ra is not None:
            ta, tp, tq = ra, remove_dots(rp_), rq
        else:
            if rp_ == "":
                tp = bp
                tq = rq if rq is not None else bq
            else:
                if rp_.startswith("/"):
                    tp = remove_dots(rp_)
                else:
                    if ba is not None and bp == "":
                        merged = "/" + rp_
                    else:
                        merged = bp[:bp.rfind("/") + 1] + rp_
                    tp = remove_dots(merged)
                tq = rq
            ta = ba
        ts = bs
    out = ts + ":"
    if ta is not None:
        out += "//" + ta
    out += tp
    if tq is not None:
        out += "?" + tq
    if rf is not None:
        out += "#" + rf
    return out


def resolve_class(base, ref):
    """role-based key of a deviating (base, reference) pair, used to match entries of known_findings.json"""
    import re
    m = re.match(r"^[A-Za-z][A-Za-z0-9+.\-]*:", ref)
    if m:
        path = re.split(r"[?#]", ref[m.end():], 1)[0]
        if re.match(r"^//", path):
            path = "/" + path[2:].partition("/")[2] if "/" in path[2:] else ""
        if any(seg in (".", "..") for seg in path.split("/")):
            return "absolute-reference-with-dot-segments"
        return "absolute-reference"
    bm = re.match(r"^[A-Za-z][A-Za-z0-9+.\-]*:(.*)$", base, re.S)
    if bm and not bm.group(1).startswith("//") and not ref.startswith("//"):
        return "relative-reference:no-authority-base"
    return "relative-reference"


def resolve_mode(mode, ref, want, got):
    """failure mode of a listed finding: the entry covers a deviating pair only if the real code fails in exactly that way"""
    if len(set(got)) != 1:
        return False
    g = got[0]
    if mode == "returns-reference-unchanged":
        return g == ref
    if mode == "drops-leading-slash":
        i = want.find(":/")
        return i > 0 and want[:i + 1] + want[i + 2:] == g
    return False


RESOLVE_REFS = ["", "#", "#f", "?", "?q", "?q#f", "g", "./g", "g/", "/g", "//h", "//h/p?q", "g?y#s", ";x", "g;x?y#s", ".", "./", "..", "../", "../g", "../..", "../../g",
                "../../../g", "/./g", "/../g", "g.", ".g", "g..", "..g", "./../g", "./g/.", "g/./h", "g/../h", "g;x=1/./y", "g;x=1/../y", "g?y/./x", "g#s/../x", "s:p",
                "s:a/../b", "s://h/a/./b", "\u00e9/\u00fc", "a/b/../../../c", "a//b", "/a//../b"]
RESOLVE_BASES = ["http://a/b/c/d;p?q", "http://a/b/c/d;p?q#frag", "http://a", "http://a#f", "http://a?q", "http://a/", "http://a/b/", "http://a/b/c/?q#f", "s:p/x", "s:/p/x#f", "s:",
                 "s:x?q#f", "http://[::1]:80/a/b#f", "urn:x:y:z#f", "http://\u00e9.org/\u00fc/?q#f", "file:///a/b/c", "http://a//b//c#f"]


def judge(s, row):
    """compare the real validators on `s` with RFC 3987; returns list of problems (empty = fine)"""
    iri_ok, ref_ok, rel_ok, base, ox_abs, ox_ref = row
    want_iri = A.matches(rfc3987.IRI, s)
    want_rel = A.matches(rfc3987.irelative_ref, s)
    probs = []
    if iri_ok != want_iri:
        probs.append("Iri::new %s it, RFC 3987 IRI %s" % ("accepts" if iri_ok else "rejects", "accepts" if want_iri else "rejects"))
    if rel_ok != want_rel:
        probs.append("is_relative_iri_ref says %s, RFC 3987 irelative-ref says %s" % (rel_ok, want_rel))
    if ref_ok != (want_iri or want_rel):
        probs.append("IriRef::new %s it, RFC 3987 IRI-reference %s" % ("accepts" if ref_ok else "rejects", "accepts" if (want_iri or want_rel) else "rejects"))
    if base in ("panic", "resolved-invalid"):
        probs.append("accepted value cannot be used as a base: %s" % base)
    return probs


def run(ctx):
    try:
        src = {n: extract.extract(n) for n in ("IRI_REGEX_SRC", "IRELATIVE_REF_REGEX_SRC")}
        asts = {n: rustre.parse(s) for n, s in src.items()}
    except (extract.ExtractError, rustre.Unsupported, ValueError) as e:
        ctx.inconc("cannot extract/parse the IRI patterns from the current source: %s" % e)
        ctx.level = "proof"
        ctx.coverage.update({"obligations": 1, "discharged": 0, "checker_cmd": "z3-new -in", "trusted_base": [], "samples": [{"error": str(e)}]})
        return
    bad = extract.wiring(WIRING)
    if bad:
        ctx.inconc("the validators are no longer wired to the extracted patterns the way the encoding assumes: %s" % bad)
    rep = rp.Replay(ctx.id, profiles=("dev",))
    try:
        patfiles = {}
        for n, s in src.items():
            patfiles[n] = os.path.join(rep.dir, n + ".pat")
            with open(patfiles[n], "w", encoding="utf-8") as f:
                f.write(s)
        corpus = load_corpus()
        rows_cache = {}

        def confirm(w):
            row = c09_eval(rep, [w])[0]
            rows_cache[w] = row
            probs = judge(w, row)
            return (True if probs else False), "; ".join(probs) + " | real build: Iri::new=%s IriRef::new=%s base=%s resolver_parses=%s" % (row[0], row[1], row[3], row[4] or row[5])

        ab, rl = asts["IRI_REGEX_SRC"], asts["IRELATIVE_REF_REGEX_SRC"]
        obls = [
            rprop.Obl("abs_subset_rfc", "subset", ab, rfc3987.IRI, "L(IRI_REGEX_SRC)", "RFC 3987 IRI", confirm, "nothing invalid is accepted as an absolute IRI"),
            rprop.Obl("rfc_subset_abs", "subset", rfc3987.IRI, ab, "RFC 3987 IRI", "L(IRI_REGEX_SRC)", confirm, "every RFC 3987 IRI is accepted"),
            rprop.Obl("rel_subset_rfc", "subset", rl, rfc3987.irelative_ref, "L(IRELATIVE_REF_REGEX_SRC)", "RFC 3987 irelative-ref", confirm, "nothing invalid is accepted as a relative reference"),
            rprop.Obl("rfc_subset_rel", "subset", rfc3987.irelative_ref, rl, "RFC 3987 irelative-ref", "L(IRELATIVE_REF_REGEX_SRC)", confirm, "every RFC 3987 relative reference is accepted"),
            rprop.Obl("abs_rel_disjoint", "disjoint", ab, rl, "L(IRI_REGEX_SRC)", "L(IRELATIVE_REF_REGEX_SRC)", confirm, "absolute/relative classification is unambiguous"),
        ]
        # open known findings: replay first, assume the class away only while it still reproduces
        known_classes = {}
        for e in ctx.open_findings():
            if e.get("kind") == "resolve":
                continue   # handled with the resolution pairs below
            w = e["witness"]
            c, detail = confirm(w)
            if c:
                ctx.known("%s [%s]" % (e["what"], e["key"]))
                known_classes.setdefault(e["obligation"], []).append((e["key"], rustre.parse(e["class_regex"]), e["what"]))
                ctx.assumptions.append("known finding %s assumed away in %s: strings matching %s" % (e["key"], e["obligation"], e["class_regex"][:80]))
        nwit = 1 if ctx.tier == "quick" else 6
        results = rprop.run(ctx, obls, known_classes, max_witnesses=nwit,
                            trusted=["regex crate matching semantics for the syntax subset used", "oxiri (resolver) is only exercised in the native replay"])
        # translator validation + wiring validation on the corpus and on all solver witnesses
        extra = [w["string"] for r in results for w in r["witnesses"]]
        allstr = sorted(set(corpus + extra))
        n, nbad = rprop.validate_translator(ctx, rep, list(asts.items()), allstr, patfiles)
        rows = c09_eval(rep, allstr)
        wiring_bad = 0
        corpus_viol = []
        for s, row in zip(allstr, rows):
            if row[0] != A.matches(ab, s) or row[2] != A.matches(rl, s):
                wiring_bad += 1
            probs = judge(s, row)
            if probs:
                corpus_viol.append((s, probs))
        # Namespace::get on solver-generated (namespace, suffix) pairs + fixed pairs: Ok exactly when ns+suffix is a valid IRI reference
        pairs = namespace_pairs(None, 4 if ctx.tier == "quick" else 12) + [
            ("http://example.org:80", "a", False), ("http://[::1]", "x", False), ("http://example.org/", "a", True), ("http://example.org/ns#", "a-b_1", True),
            ("//example.org:8080", "8o", False), ("a:%4", "1", False), ("http://example.org/a%", "41", False)]
        rc, out = rep.run("dev", ["c09", "ns"], stdin="\n".join(rprop.esc(a + "\x1f" + b) for a, b, _ in pairs) + "\n", timeout=300)
        ans = out.split()
        ns_checked = 0
        if rc != 0 or len(ans) != len(pairs):
            ctx.inconc("Namespace::get replay failed: rc=%s %s" % (rc, out[-200:]))
        else:
            for (a, b, _), g in zip(pairs, ans):
                if g == "n/a":
                    continue
                ns_checked += 1
                want = A.matches(rfc3987.IRI, a + b) or A.matches(rfc3987.irelative_ref, a + b)
                if (g == "1") != want:
                    wp = ctx.write_witness("namespace-get-%d" % ns_checked, {"property": "C09", "kind": "namespace", "namespace": a, "suffix": b, "string": a + b,
                                                                              "detail": "Namespace::get returned %s, RFC 3987 says the concatenation is %s" % ("Ok" if g == "1" else "Err", "valid" if want else "invalid")})
                    ctx.violation(wp, "Namespace::new(%r).get(%r) is %s but the concatenation is %s per RFC 3987" % (a, b, "Ok" if g == "1" else "Err", "valid" if want else "invalid"))
        ctx.coverage["namespace_get_pairs_replayed"] = ns_checked
        # resolution: the four resolving entry points of sophia_iri against RFC 3986 5.2, on (base, reference) pairs drawn from fixed
        # lists, the corpus and the solver's witnesses (every accepted absolute IRI is a base, every accepted reference a reference)
        bases = list(RESOLVE_BASES) + [x for x, row in zip(allstr, rows) if row[0] and len(x) < 60][:(25 if ctx.tier == "quick" else 200)]
        refs = list(RESOLVE_REFS) + [x for x, row in zip(allstr, rows) if row[1] and len(x) < 60][:(25 if ctx.tier == "quick" else 200)]
        rpairs = [(b, r) for b in bases for r in refs]
        rc, out = rep.run("dev", ["c09", "resolve"], stdin="\n".join(rprop.esc(b + "\x1f" + r) for b, r in rpairs) + "\n", timeout=600)
        lines = out.split("\n")[:len(rpairs)]
        res_checked = res_bad = 0
        res_known = {e["class"]: e for e in ctx.open_findings() if e.get("kind") == "resolve"}
        res_known_hits = {}
        if rc != 0 or len(lines) != len(rpairs):
            ctx.inconc("resolve replay failed: rc=%s lines=%d/%d %s" % (rc, len(lines), len(rpairs), out[-200:]))
        else:
            for (b, r), l in zip(rpairs, lines):
                if l.strip() == "n/a":
                    continue
                res_checked += 1
                want = rfc3986_resolve(b, r)
                if l.strip() == "panic":
                    got = ["<panic>"] * 4
                else:
                    got = [bytes.fromhex(h[1:]).decode("utf-8") for h in l.split()]
                names = ("Iri::resolve", "IriRef::resolve", "BaseIri::resolve", "BaseIri::resolve_into")
                diffs = ["%s gives %r" % (n, g) for n, g in zip(names, got) if g != want]
                if not diffs:
                    continue
                cls = resolve_class(b, r)
                # a listed finding only covers its own failure mode: all four entry points return the reference unchanged
                if cls in res_known and resolve_mode(res_known[cls].get("mode"), r, want, got):
                    res_known_hits[cls] = res_known_hits.get(cls, 0) + 1
                    continue
                log("[C09]   resolve deviation (%s): %r + %r -> %r, RFC %r" % (cls, b, r, got[0], want))
                if res_bad < 3:
                    res_bad += 1
                    wp = ctx.write_witness("resolve-%d" % res_bad, {"property": "C09", "kind": "resolve", "base": b, "reference": r, "rfc3986_5_2": want, "detail": diffs})
                    ctx.violation(wp, "resolving %r against %r: RFC 3986 5.2 gives %r but %s" % (r, b, want, "; ".join(diffs)))
            for cls, e in res_known.items():
                if res_known_hits.get(cls):
                    ctx.known("%s [%s] (%d of the replayed pairs)" % (e["what"], e["key"], res_known_hits[cls]))
                    ctx.assumptions.append("known finding %s: pairs of class %s that fail in the listed way (%s) are not reported again; any other deviation is" % (e["key"], cls, e.get("mode")))
        ctx.coverage["resolve_pairs_replayed"] = res_checked
        if wiring_bad:
            ctx.inconc("real validators disagree with the extracted patterns on %d corpus strings: the patterns are not the whole validator" % wiring_bad)
        ctx.coverage["translator_validation"] = {"strings": n, "disagreements": nbad, "validators_vs_patterns_disagreements": wiring_bad}
        ctx.coverage["traces_validated_against_impl"] = len(allstr)
        # verdicts
        reported = set()
        for r in results:
            if r["verdict"] == "unsat":
                continue
            if r["verdict"] != "sat":
                ctx.inconc("%s: %s" % (r["obligation"], r["verdict"]))
                continue
            any_confirmed = False
            for w in r["witnesses"]:
                rp_ = w.get("replay") or {}
                if rp_.get("reproduced"):
                    any_confirmed = True
                    if w["string"] in reported:
                        continue
                    reported.add(w["string"])
                    wp = ctx.write_witness("%s-%d" % (r["obligation"], len(reported)), {"property": "C09", "obligation": r["obligation"], "string": w["string"],
                                                                                         "escaped": w["escaped"], "detail": rp_.get("detail")})
                    ctx.violation(wp, "%s: %r — %s" % (r["obligation"], w["string"], rp_.get("detail")))
            if not any_confirmed:
                ctx.inconc("%s: solver witness %r does not reproduce on the real validators (SPURIOUS: encoding or reference is wrong)" % (
                    r["obligation"], r["witnesses"][0]["string"] if r["witnesses"] else None))
        # corpus strings on which the real build deviates (native, outside every assumed-away class)
        for s, probs in corpus_viol:
            if s in reported:
                continue
            if any(A.matches(c, s) for cl in known_classes.values() for (_, c, _) in cl):
                continue
            if any(s == w["string"] for r in results for w in r["witnesses"]):
                continue
            # only report corpus deviations the solver did not already explain (same obligation failing)
            failing = {r["obligation"] for r in results if r["verdict"] == "sat"}
            if failing:
                continue
            wp = ctx.write_witness("corpus-%d" % (len(reported) + 1), {"property": "C09", "string": s, "escaped": rprop.esc(s), "detail": probs})
            reported.add(s)
            ctx.violation(wp, "corpus string %r: %s" % (s, "; ".join(probs)))
        ctx.assumptions += ["regexes extracted from iri/src/_regex.rs at run time", "wiring facts checked textually: " + "; ".join(w[1][:60] for w in WIRING)]
        ctx.coverage["functions_encoded"] = ["sophia_iri::IRI_REGEX_SRC", "sophia_iri::IRELATIVE_REF_REGEX_SRC (as used by Iri::new, IriRef::new, is_absolute_iri_ref, is_relative_iri_ref, is_valid_iri_ref)"]
        ctx.coverage["outside_the_claim"] = ["equality of resolution results with RFC 3986 5.2 for ALL pairs (oxiri, third-party, is not encoded): decided natively on a finite set of (base, reference) pairs drawn from fixed lists, the corpus and the solver witnesses, through the four sophia_iri entry points"]
    finally:
        rep.close()


def replay(ctx, path):
    import json
    w = json.load(open(path))
    rep = rp.Replay(ctx.id, profiles=("dev",))
    try:
        if w.get("kind") == "resolve":
            rc, out = rep.run("dev", ["c09", "resolve"], stdin=rprop.esc(w["base"] + "\x1f" + w["reference"]) + "\n")
            want = rfc3986_resolve(w["base"], w["reference"])
            l = out.strip()
            got = [bytes.fromhex(h[1:]).decode("utf-8") for h in l.split()] if l not in ("n/a", "panic") else [l]
            log("resolve(%r, %r) -> %s ; RFC 3986 5.2: %r" % (w["base"], w["reference"], got, want))
            if l != "n/a" and any(g != want for g in got):
                known = {e["class"]: e for e in ctx.open_findings() if e.get("kind") == "resolve"}
                cls = resolve_class(w["base"], w["reference"])
                if cls in known and resolve_mode(known[cls].get("mode"), w["reference"], want, got):
                    log("KNOWN-FINDING: property=C09 %s [%s]" % (known[cls]["what"], known[cls]["key"]))
                    return 0
                log("VIOLATION property=C09 replay=%s" % path)
                return 1
            return 0
        if w.get("kind") == "namespace":
            rc, out = rep.run("dev", ["c09", "ns"], stdin=rprop.esc(w["namespace"] + "\x1f" + w["suffix"]) + "\n")
            want = A.matches(rfc3987.IRI, w["string"]) or A.matches(rfc3987.irelative_ref, w["string"])
            log("Namespace::get -> %s, RFC valid: %s" % (out.strip(), want))
            if out.strip() in ("0", "1") and (out.strip() == "1") != want:
                log("VIOLATION property=C09 replay=%s" % path)
                return 1
            return 0
        row = c09_eval(rep, [w["string"]])[0]
        probs = judge(w["string"], row)
        log("%r -> %s ; %s" % (w["string"], row, probs))
        if probs:
            log("VIOLATION property=C09 replay=%s" % path)
            return 1
        return 0
    finally:
        rep.close()
