"""C15 — streams deliver exactly the prefix before a failure and blame the right side."""
import os
from engine import kprop
from engine.kani_run import Harness
from engine.common import VERIF

H = os.path.join(VERIF, "harness")

CHAINS_Q = ["c15_chain_0", "c15_chain_f", "c15_chain_m", "c15_chain_fm",
            "c15_chain_f_f", "c15_chain_f_m", "c15_chain_f_fm", "c15_chain_m_f", "c15_chain_m_m",
            "c15_chain_m_fm", "c15_chain_fm_f", "c15_chain_fm_m", "c15_chain_fm_fm",
            "c15_chain_f_m_fm", "c15_chain_fm_f_m", "c15_chain_m_fm_f"]
NOFILTER = {"c15_chain_0", "c15_chain_m", "c15_chain_m_m"}


def spec(tier):
    hs = []
    cap = 180 if tier == "quick" else 1800
    for c in CHAINS_Q:
        hs.append(Harness(c, timeout=cap, optional_covers=("something filtered out",) if c in NOFILTER else (),
                          note="adapter chain %s over an iterator source, symbolic items/fault positions/driving mode" % c[10:]))
    hs.append(Harness("c15_for_each_item", timeout=cap, optional_covers=("sink fault",), note="for_each_item/for_some_item (infallible sink)"))
    hs.append(Harness("c15_stream_error_plumbing", timeout=cap, note="StreamError map_source/map_sink/reverse/inner_into"))
    return kprop.KSpec(
        package="sophia_api", crate_dir="api",
        harness_files={"api": [os.path.join(H, "api", "c15_stream.rs")]},
        harnesses=hs, jobs=8,
        encoded=["sophia_api::source::Source::{try_for_some_item (iterator impl), try_for_each_item, for_some_item, for_each_item}",
                 "source::filter::FilterSource", "source::map::MapSource", "source::filter_map::FilterMapSource",
                 "source::StreamError::{map_source,map_sink,reverse,inner_into,is_*}", "StreamResultExt"],
        bounds=["n <= 4 items, all u8 payloads", "source-fault index in 0..=4, sink-fault call index in 0..=5, both error payloads symbolic",
                "all 3 chains of depth 1, all 9 of depth 2, 3 of depth 3; whole-stream and step-wise driving", "loop unwind 8 (unwinding assertions on)"],
        outside=["real parsers as sources and real io::Error kinds", "sequences longer than 4"],
        assumptions=["harness iterator/sink stand for user-supplied Iterator/closure implementations"],
    )


def run(ctx):
    kprop.run(ctx, spec(ctx.tier))


def replay(ctx, path):
    return kprop.replay(ctx, spec(ctx.tier), path)
