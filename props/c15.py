"""C15 — streams deliver exactly the prefix before a failure and blame the right side."""
import os
from engine import kprop
from engine.kani_run import Harness
from engine.common import VERIF

H = os.path.join(VERIF, "harness")

CHAINS_Q = ["c15_chain_0", "c15_chain_f", "c15_chain_m", "c15_chain_fm",
            "c15_chain_f_f", "c15_chain_f_m", "c15_chain_f_fm", "c15_chain_m_f", "c15_chain_m_m",
            "c15_chain_m_fm", "c15_chain_fm_f", "c15_chain_fm_m", "c15_chain_fm_fm",
            "c15_chain_f_m_fm", "c15_chain_fm_f_m", "c15_chain_m_fm_f"]
NOFILTER = {"c15_chain_0", "c15_chain_m", "c15_chain_m_m"}


def spec(tier):
    hs = []
    cap = 180 if tier == "quick" else 1800
    for c in CHAINS_Q:
        hs.append(Harness(c, unwind=7, timeout=cap, optional_covers=("something filtered out",) if c in NOFILTER else (),
                          note="adapter chain %s over an iterator source, symbolic items/fault positions/driving mode" % c[10:]))
    for c in ("c15_chunky_f", "c15_chunky_m", "c15_chunky_fm"):
        hs.append(Harness(c, unwind=7, timeout=cap, optional_covers=("something filtered out",) if c.endswith("_m") else (),
                          note="multi-item-per-step source (fault possibly mid-step) through one adapter"))
    for c in ("c15_into_iter_m", "c15_into_iter_fm"):
        hs.append(Harness(c, unwind=7, timeout=max(cap, 600), optional_covers=("sink fault", "something filtered out") if c.endswith("_m") else ("sink fault",),
                          note="IntoIterator of map_items/filter_map_items over a multi-item-per-step source"))
    for c in ("c15_to_quads", "c15_to_triples"):
        hs.append(Harness(c, unwind=6, timeout=cap, note="filter_triples/filter_quads + to_quads/to_triples over a faulty iterator source"))
    hs.append(Harness("c15_for_each_item", timeout=cap, optional_covers=("sink fault",), note="for_each_item/for_some_item (infallible sink)"))
    hs.append(Harness("c15_stream_error_plumbing", timeout=cap, note="StreamError map_source/map_sink/reverse/inner_into"))
    return kprop.KSpec(
        package="sophia_api", crate_dir="api",
        harness_files={"api": [os.path.join(H, "api", "vt.rs"), os.path.join(H, "api", "c15_stream.rs"), os.path.join(H, "api", "c15_convert.rs")]},
        harnesses=hs, jobs=8, vecdeque=True,
        encoded=["sophia_api::source::Source::{try_for_some_item (iterator impl), try_for_each_item, for_some_item, for_each_item}",
                 "source::filter::FilterSource", "source::map::MapSource", "source::filter_map::FilterMapSource",
                 "source::StreamError::{map_source,map_sink,reverse,inner_into,is_*}", "StreamResultExt",
                 "source::map::MapSourceIterator, source::filter_map::FilterMapSourceIterator (IntoIterator)",
                 "source::convert::{ToQuads, ToTriples}, FilterTripleSource, FilterQuadSource"],
        bounds=["n <= 4 items, all u8 payloads", "source-fault index in 0..=4, sink-fault call index in 0..=5, both error payloads symbolic",
                "all 3 chains of depth 1, all 9 of depth 2, 3 of depth 3; whole-stream and step-wise driving", "loop unwind 7 (unwinding assertions on)"],
        outside=["real parsers as sources and real io::Error kinds", "sequences longer than 4"],
        assumptions=["harness iterator/sink stand for user-supplied Iterator/closure implementations"],
    )


def spec_inmem(tier):
    cap = 900 if tier == "quick" else 2700   # 10-35 s on the unchanged tree; patched code that buffers in a Vec needs much longer
    names = ["c15_fg_insert_all_p", "c15_fg_insert_all_o", "c15_fg_insert_all_s", "c15_lg_insert_all", "c15_ld_insert_all", "c15_lg_remove_all", "c15_ld_remove_all", "c15_lg_collect", "c15_fg_collect", "c15_ld_collect"]
    if tier == "thorough":
        names += ["c15_fd_insert_all_o", "c15_fd_insert_all_pg"]
    US = [(r"Iterator>::any::<", 3, "loops?"), (r"__ordset::cmp::<", 5, "loops?")]
    hs = [Harness(n, unwind=4, unwindset=US, timeout=cap, mem_gb=14, optional_covers=("pattern selects nothing",) if n.endswith("_collect") else (),
                  note="insert_all of 2 symbolic items with a source fault or an index-full sink fault at a symbolic position; content checked through a secondary index") for n in names]
    HI = os.path.join(H, "inmem")
    return kprop.KSpec(
        package="sophia_inmem", crate_dir="inmem",
        harness_files={"inmem": [os.path.join(HI, "vt.rs"), os.path.join(HI, "c01_store.rs"), os.path.join(HI, "c15_insert_all.rs")]},
        harnesses=hs, ordset=True, ordset_cap=2, jobs=5,
        encoded=["MutableGraph::insert_all / MutableDataset::insert_all as seen through Generic{Fast,Light}{Graph,Dataset} (default method or override)",
                 "sophia_inmem insert paths and secondary indexes after a faulted bulk insertion", "CollectibleGraph::from_triple_source / CollectibleDataset::from_quad_source of the stores"],
        bounds=["2 symbolic triples/quads, source fault index in 0..=2, refused term code symbolic (index full)", "ordered-set model capacity 2"],
        outside=["remove_matching / retain_matching on the real stores"],
        assumptions=["std BTreeSet replaced by an ordered-set model", "VT/VTI harness term and term-index types"],
    )


def spec_rio(tier):
    cap = 300 if tier == "quick" else 2700
    hs = [Harness(n, unwind=6, timeout=cap, mem_gb=14,
                  note="harness rio_api parser (<=3 statements, symbolic chunk size and fault position) behind the Strict Rio adapter; symbolic callback fault") for n in ("c15_rio_triples", "c15_rio_quads")]
    return kprop.KSpec(
        package="sophia_rio", crate_dir="rio",
        harness_files={"rio": [os.path.join(H, "rio", "c15_rio.rs")]},
        harnesses=hs, jobs=2,
        encoded=["sophia_rio::parser::{StrictRioTripleSource, StrictRioQuadSource}::try_for_some_item, RioStreamError conversions"],
        bounds=["<=3 statements, 1..=3 statements per parse_step, parser fault index in 0..=3, callback fault call index in 0..=4, step-wise and whole-stream driving"],
        outside=["GeneralizedRioSource (same code shape)", "the real Rio parsers as the wrapped parser"],
        assumptions=["harness parser implementing rio_api::parser::{TriplesParser,QuadsParser} per the trait contract"],
    )


def spec_turtle(tier):
    cap = 900 if tier == "quick" else 2700
    hs = [Harness("c15_nt_serializer_faults", unwind=5,
                  unwindset=[(r"BW as std::io::Write>::write$", 4, "loops?"), (r"c15_nt_ser::c15_nt_serializer_faults$", 28, "loops")],
                  timeout=cap, mem_gb=14, note="NtSerializer::serialize_triples of <=2 lean triples into a writer with a symbolic byte budget, symbolic source fault"),
          Harness("c15_nq_serializer_faults", unwind=5,
                  unwindset=[(r"BW as std::io::Write>::write$", 4, "loops?"), (r"c15_nq_ser::c15_nq_serializer_faults$", 36, "loops")],
                  timeout=cap, mem_gb=14, note="NqSerializer::serialize_quads of <=2 lean quads (default or named graph), writer fault persistent or transient, symbolic source fault")]
    return kprop.KSpec(
        package="sophia_turtle", crate_dir="turtle",
        harness_files={"turtle": [os.path.join(H, "turtle", "c15_nt_ser.rs"), os.path.join(H, "turtle", "c15_nq_ser.rs")]},
        harnesses=hs, jobs=2,
        encoded=["sophia_turtle::serializer::nt::NtSerializer::serialize_triples (+ write_triple/write_term IRI arm) as the consumer of a stream"],
        bounds=["<=2 triples of 1-byte IRIs, source fault index in 0..=2, writer byte budget in 0..=27"],
        outside=["Turtle/TriG serializers as consumers; io::Error kinds other than the harness writer's"],
        assumptions=["array-backed io::Write with a byte budget"],
    )


def serializer_format_unchanged(ctx, rep):
    """The serializer harnesses compare bytes with `<s> <p> <o>.\\n` / `<s> <p> <o> <g>.\\n`. White-space placement is not part of
    the property, so a format change must not become an alarm: the real serializers are asked natively first."""
    rc, out = rep.run("dev", ["rt", "fmt"], timeout=120)
    ok = rc == 0 and "NT:<a> <b> <c>.\\n" in out and "NQ:<a> <b> <c> <b>.\\n<a> <b> <c>.\\n" in out
    if not ok:
        ctx.inconc("the N-Triples/N-Quads serializers no longer write `<s> <p> <o>.` byte for byte (%r): the byte-comparing harnesses "
                   "c15_n[tq]_serializer_faults are skipped rather than reported" % out[:200])
    return ok


def run(ctx):
    from engine import replay as rp
    kprop.run(ctx, spec(ctx.tier))
    kprop.run(ctx, spec_inmem(ctx.tier))
    kprop.run(ctx, spec_rio(ctx.tier))
    try:
        rep = rp.Replay(ctx.id + "native", profiles=("dev", "release"))
    except RuntimeError as e:
        ctx.inconc("replay crate did not build: %s" % str(e)[-300:])
        return
    try:
        if serializer_format_unchanged(ctx, rep):
            kprop.run(ctx, spec_turtle(ctx.tier))
        native_fault_corpus(ctx, rep)
    finally:
        rep.close()


def native_fault_corpus(ctx, rep):
    """The 'replay only' half of the design (real parsers as sources, real io::Error, real stores, real Vec/BTreeSet):
    every single-fault position of a few small real pipelines, natively, dev and release. Not solver-decided; it covers
    code shapes (Vec buffering, io::Error juggling) on which the harnesses above do not finish."""
    from engine.common import log
    lines = []
    runs = 0
    for prof in ("dev", "release"):
        rc, out = rep.run(prof, ["c15"], timeout=600)
        runs += 1
        if rc not in (0, 1):
            ctx.inconc("native fault corpus (%s) crashed: rc=%s %s" % (prof, rc, out[-200:]))
            continue
        for l in out.splitlines():
            if l.startswith("REPLAY-VIOLATION") and l not in lines:
                lines.append(l)
    ctx.coverage["native_fault_corpus"] = {"runs": runs, "deviations": len(lines), "solver_decided": False,
                                           "what": "NtSerializer/NqSerializer x source-fault position x writer byte budget (persistent/transient); insert_all/remove_all on "
                                                   "Fast/Light datasets and graphs and Vec x source-fault position; Turtle parser x sink-fault call index / syntax error"}
    ctx.coverage["traces_validated_against_impl"] = ctx.coverage.get("traces_validated_against_impl", 0) + runs
    if lines:
        wp = ctx.write_witness("native-fault-corpus", {"property": "C15", "kind": "native-fault-corpus", "deviations": lines[:40]})
        log("[C15] native fault corpus: %d deviations, e.g. %s" % (len(lines), lines[0][:200]))
        ctx.violation(wp, "native fault corpus: %s" % lines[0][17:300])
    else:
        log("[C15] native fault corpus: 0 deviations (dev + release)")


def replay(ctx, path):
    import json
    w = json.load(open(path))
    if w.get("kind") == "native-fault-corpus":
        from engine import replay as rp
        from engine.common import log
        rep = rp.Replay(ctx.id + "corpus", profiles=("dev",))
        try:
            rc, out = rep.run("dev", ["c15"], timeout=600)
            log(out[-1500:])
            if rc == 1:
                log("VIOLATION property=C15 replay=%s" % path)
                return 1
            return 0 if rc == 0 else 2
        finally:
            rep.close()
    hn = w.get("harness", "")
    sp = spec_inmem(ctx.tier) if "c15_insert_all" in hn else (spec_rio(ctx.tier) if "c15_rio" in hn else (spec_turtle(ctx.tier) if ("c15_nt_ser" in hn or "c15_nq_ser" in hn) else spec(ctx.tier)))
    return kprop.replay(ctx, sp, path)
