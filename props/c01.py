"""C01 — in-memory stores behave like a mathematical set (engine K on Generic{Fast,Light}{Dataset,Graph}<VTI>)."""
import os
from engine import kprop
from engine.kani_run import Harness
from engine.common import VERIF

H = os.path.join(VERIF, "harness", "inmem")
US = [(r"Iterator>::any::<", 3, "loops?"), (r"__ordset::cmp::<", 5, "loops?")]

QUICK = ["c01_fd_0000", "c01_fd_0001", "c01_fd_1000", "c01_fd_1010", "c01_fd_0110", "c01_fd_0101", "c01_fd_0011", "c01_fd_res_so_gpconst_light",
         "c01_fd_res_kind_p_sconst", "c01_ld_1001", "c01_ld_res_gnot",
         "c01_fg_000", "c01_fg_001", "c01_fg_010", "c01_fg_100", "c01_fg_011", "c01_fg_res_not_o_sconst", "c01_fg_res_two_p_sconst", "c01_lg_res_two_p_sconst", "c01_ld_res_gkind",
         "c01_lg_100", "c01_lg_res_not_s", "c01_fd_index_full"]

ALL_FD = ["c01_fd_%d%d%d%d" % (a, b, c, d) for a in (0, 1) for b in (0, 1) for c in (0, 1) for d in (0, 1)]
ALL_LD = [x.replace("_fd_", "_ld_") for x in ALL_FD]
ALL_FG = ["c01_fg_%d%d%d" % (a, b, c) for a in (0, 1) for b in (0, 1) for c in (0, 1)]
ALL_LG = [x.replace("_fg_", "_lg_") for x in ALL_FG]
RES = ["c01_fd_res_two_s", "c01_fd_res_not_o_gconst", "c01_fd_res_kind_p_sconst", "c01_fd_res_gtwo", "c01_fd_res_gnot_oconst",
       "c01_fd_res_gkind_pconst", "c01_fd_opt_s_gopt", "c01_fd_res_so_gpconst", "c01_fd_res_so_gpconst_light", "c01_fd_res_po_gsconst", "c01_fd_res_sp_oconst",
       "c01_ld_res_two_o_gconst", "c01_ld_res_not_p_sgconst", "c01_ld_res_gnot", "c01_ld_res_kind_s", "c01_fd_termgn",
       "c01_fg_res_two_p", "c01_fg_res_two_p_sconst", "c01_lg_res_two_p_sconst", "c01_ld_res_gkind", "c01_fg_res_not_o_sconst", "c01_fg_res_kind_s_oconst", "c01_lg_res_not_s", "c01_lg_res_kind_o_sconst",
       "c01_fd_unknown_constant", "c01_fd_index_full"]


# measured not to finish within 1500 s / 14 GB (out of memory): kept out of both tiers, stated in DESIGN.md 8.1
HEAVY = {"c01_fd_1111", "c01_ld_0111", "c01_fd_unknown_constant", "c01_ld_res_two_o_gconst"}


def spec(tier, cap_k=2, names=None):
    if names is None:
        names = QUICK if tier == "quick" else [n for n in ALL_FD + ALL_LD + ALL_FG + ALL_LG + RES if n not in HEAVY]
    to = 600 if tier == "quick" else 3000
    mem = 12 if tier == "quick" else 16
    hs = [Harness(n, unwind=cap_k + 2, unwindset=US, timeout=to, mem_gb=mem,
                  note="history of %d symbolic insert/remove operations, then one pattern query stepped to exhaustion" % cap_k) for n in names]
    return kprop.KSpec(
        package="sophia_inmem", crate_dir="inmem",
        harness_files={"inmem": [os.path.join(H, "vt.rs"), os.path.join(H, "c01_store.rs")]},
        harnesses=hs, ordset=True, ordset_cap=cap_k, jobs=6 if tier == "quick" else 3,
        encoded=["sophia_inmem::dataset::{GenericFastDataset,GenericLightDataset}::{insert,remove,quads_matching} (16-way / nested index selection, range bounds, permutation closures)",
                 "sophia_inmem::graph::{GenericFastGraph,GenericLightGraph}::{insert,remove,triples_matching}",
                 "sophia_inmem::{dataset,graph}::_iter::* (matching iterators with cached match flags)",
                 "sophia_api::term::matcher::{Any, Option<T>, [T;N], Not, TermKind, Option<Option<T>>, [GraphName<T>;N], Option<TermKind>, TermMatcherGn}"],
        bounds=["histories of %d symbolic operations (insert or remove of a symbolic quad over 3 terms x 3 graph names)" % cap_k,
                "one query per harness; quick: %d pattern shapes/matcher kinds, thorough: all 16+16+8+8 bound/unbound shapes plus residual matcher kinds" % len(QUICK),
                "ordered-set model capacity %d; loop unwind %d (unwinding assertions on)" % (cap_k, cap_k + 2)],
        outside=["std BTreeSet/HashMap; SimpleTermIndex (real term<->index bijection, 16-bit exhaustion): only the stores' reaction to an index that reports 'full'",
                 "quads()/triples() of the four store types (kani-compiler crashes on the closure pattern |[gi, ti @ ..]|)",
                 "histories longer than the bound; literal / quoted-triple terms inside the stores; Vec/HashSet/BTreeSet-of-quads foreign impls",
                 "default methods remove_matching/retain_matching (C11 harnesses cover the default query path on an array dataset)"],
        assumptions=["VT/VTI: user-level Term and TermIndex implementations (identity index on term codes); VT::eq reads a VT operand directly (layout fast path)",
                     "boolean/list reference model of the set in the harness"],
    )


LIT_MATCHERS = ["c01_datatype_matcher", "c01_language_tag_matcher", "c01_kind_matcher_all_kinds", "c01_triple_matcher", "c01_triple_matcher_kinds"]
US_LIT = [(r"^<?.*T2 as .*Term>::(eq|cmp|hash)", 1, "rec?"), (r"c02_terms::same$", 1, "rec?")]


def spec_matchers(tier):
    HA = os.path.join(VERIF, "harness", "api")
    hs = [Harness(n, unwind=5, timeout=300, mem_gb=8, note="every shipped matcher type with symbolic content against its reference predicate and the constant() contract")
          for n in ("c01_term_matchers", "c01_graph_name_matchers")]
    hs += [Harness(n, unwind=8, unwindset=US_LIT, extra_cbmc=["--unwindset", "memcmp.0:60"], timeout=400, mem_gb=10,
                   note="datatype / language-tag / quoted-triple / kind / closure matchers on the all-kinds term T2 against reference predicates")
           for n in LIT_MATCHERS if tier == "thorough" or n != "c01_triple_matcher"]   # (Some, Any, Some) tuple matcher: 150 s, thorough tier only
    return kprop.KSpec(
        package="sophia_api", crate_dir="api",
        harness_files={"api": [os.path.join(HA, "vt.rs"), os.path.join(HA, "c01_matchers.rs"), os.path.join(HA, "c02_terms.rs"), os.path.join(HA, "c01_matchers_lit.rs")]},
        harnesses=hs, jobs=2,
        encoded=["TermMatcher / GraphNameMatcher impls: Any, Option<T>, [T;N], &[T], Not, TermKind, MatcherRef, Option<Option<T>>, [GraphName<T>;N], &[GraphName<T>], Option<TermKind>, TermMatcherGn"],
        bounds=["symbolic terms over 8 codes (IRIs and blank nodes), symbolic graph names incl. the default graph"],
        outside=["closure matchers, datatype/language-tag matchers, quoted-triple tuple matchers"],
    )


# the FastDataset index-selection arms that the 2-operation quick set does not reach: swept with 1-operation histories
QUICK_K1 = ["c01_fd_0010", "c01_fd_0100", "c01_fd_1001", "c01_fd_1100", "c01_ld_1101", "c01_fg_101", "c01_fg_110"]   # ld_0001 (240 s even with one operation) stays in the thorough tier   # the three-constant arms (0111, 1011, 1101, 1110: 100-300 s each) are in the thorough tier only


def spec_k1(tier):
    sp = spec(tier, cap_k=1, names=QUICK_K1)
    for h in sp.harnesses:
        h.unwind = 4
        h.note = "history of 1 symbolic insert/remove operation, then one pattern query (covers the remaining index-selection arms cheaply)"
    sp.bounds = ["histories of 1 symbolic operation; the FastDataset pattern shapes with one or two constants that are not in the 2-operation quick set (three-constant shapes: thorough tier; fd_1111 does not finish)", "ordered-set model capacity 1; loop unwind 4"]
    return sp


def run(ctx):
    kprop.run(ctx, spec_matchers(ctx.tier))
    kprop.run(ctx, spec(ctx.tier))
    if ctx.tier == "quick":
        kprop.run(ctx, spec_k1(ctx.tier))
    if ctx.tier == "thorough":
        # deeper histories on the graph stores (3 operations, capacity 3)
        kprop.run(ctx, spec("thorough", cap_k=3, names=ALL_FG + ALL_LG + ["c01_fg_res_not_o_sconst", "c01_lg_res_not_s"]))


def replay(ctx, path):
    import json
    w = json.load(open(path))
    sp = spec_matchers(ctx.tier) if "c01_matchers" in w.get("harness", "") else spec(ctx.tier)
    return kprop.replay(ctx, sp, path)
