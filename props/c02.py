"""C02 — term equality, hashing and ordering are lawful (engine K on the default Term::eq/cmp/hash, LanguageTag, NsTerm::eq)."""
import os
from engine import kprop
from engine.kani_run import Harness
from engine.common import VERIF

H = os.path.join(VERIF, "harness", "api")
US = [(r"^<?.*T2 as .*Term>::(eq|cmp|hash)", 1, "rec?"), (r"c02_terms::same$", 1, "rec?"),
      (r"c02_langtag::c02_langtag_laws$", 34, "loops?"), (r"c02_langtag::RecH as std::hash::Hasher>::write$", 6, "loops?"),
      (r"c02_terms::RecH as std::hash::Hasher>::write$", 60, "loops?"), (r"c02_terms::same_writes$", 98, "loops?")]
NAMES = ["c02_laws_bnode", "c02_laws_iri", "c02_laws_variable", "c02_laws_typed_literal", "c02_laws_tagged_literal",
         "c02_cross_bn_iri", "c02_cross_iri_lit", "c02_cross_lit_tag", "c02_cross_tag_triple", "c02_cross_triple_var", "c02_cross_bn_var", "c02_nsterm_eq", "c02_langtag_laws"]


def spec(tier):
    cap = 500 if tier == "quick" else 2700
    hs = [Harness(n, unwind=8 if n != "c02_langtag_laws" else 6, unwindset=US, extra_cbmc=["--unwindset", "memcmp.0:60"], timeout=cap, mem_gb=14,
                  optional_covers=("equal terms with different encodings",) if False else (),
                  note="three symbolic terms of one kind: eq equivalence + oracle, cmp antisymmetric/transitive/Equal<=>eq, eq => identical hasher input") for n in NAMES]
    return kprop.KSpec(
        package="sophia_api", crate_dir="api",
        harness_files={"api": [os.path.join(H, "c02_terms.rs"), os.path.join(H, "c02_langtag.rs")]},
        harnesses=hs, jobs=6,
        encoded=["sophia_api::term::Term::{eq, cmp, hash} (default methods, inherited by every shipped term type)",
                 "LanguageTag PartialEq/Ord/Hash (ASCII case folding; directly on 1- and 3-byte tags over {a,A,b,1,-} and through tagged literals)", "iri wrapper comparisons (iri/src/_wrap_macro.rs)", "sophia_api::ns::NsTerm::eq"],
        bounds=["terms: IRIs/blank nodes/variables over 1-byte names {a,b,A,B}; typed literals 2 lexical forms x 2 datatypes; tagged literals 2 lexical forms x tags {en,EN,eN,fr}",
                "three symbolic terms per same-kind harness; one harness per kind pair for the cross-kind order", "NsTerm: namespace+suffix <= 4 bytes over {a,b,/}, other IRI <= 5 bytes, symbolic split"],
        outside=["quoted triples as operands of the laws (3^depth recursion does not finish: 900 s / 14 GB) — only their kind rank is checked",
                 "SimpleTerm/ArcTerm/GenericLiteral as carriers and the conversion paths from_term/as_simple/copy_term (lazies, heap strings)", "strings longer than the bound"],
        assumptions=["T2: lean Copy term type implementing only the accessors (eq/cmp/hash are the defaults under test)", "recording hasher"],
    )


def spec_term(tier):
    HT = os.path.join(VERIF, "harness", "term")
    names = ["c02_generic_typed_typed", "c02_generic_literal_hash"]
    if tier == "thorough":
        names.append("c02_generic_typed_tagged")   # ~500 s: rdf:langString is a lazily built constant
    USG = [(r"c02_generic::RecH as std::hash::Hasher>::write$", 60, "loops?"), (r"c02_generic::c02_generic_literal_hash$", 98, "loops?")]
    hs = [Harness(n, unwind=6 if "hash" not in n else 8, unwindset=USG, extra_cbmc=["--unwindset", "memcmp.0:60"], timeout=400 if tier == "quick" else 2700, mem_gb=14,
                  optional_covers=("equal literals",) if n.endswith("typed_tagged") else (),
                  note="two symbolic GenericLiteral<&str>: ==, Ord, PartialOrd, Hash against Term::eq/cmp/hash") for n in names]
    return kprop.KSpec(
        package="sophia_term", crate_dir="term",
        harness_files={"term": [os.path.join(HT, "c02_generic.rs")]},
        harnesses=hs, jobs=3,
        encoded=["sophia_term::GenericLiteral: PartialEq, Ord, PartialOrd, Hash (typed x typed in quick; typed x tagged in thorough)"],
        bounds=["lexical forms {a,b}, datatypes {a,x} (one sorting before, one after rdf:langString), tags {en,EN,fr}"],
        outside=["tagged x tagged GenericLiterals (LanguageTag::cmp via chars(): 900 s timeout), RcTerm/ArcTerm (Rc/Arc<str> carriers)"],
    )


def run(ctx):
    kprop.run(ctx, spec(ctx.tier))
    kprop.run(ctx, spec_term(ctx.tier))


def replay(ctx, path):
    import json
    w = json.load(open(path))
    sp = spec_term(ctx.tier) if "c02_generic" in w.get("harness", "") else spec(ctx.tier)
    return kprop.replay(ctx, sp, path)
