"""C11 — graph/dataset views stay coherent with the underlying store (engine K on the generic view code)."""
import os
from engine import kprop
from engine.kani_run import Harness
from engine.common import VERIF

H = os.path.join(VERIF, "harness", "api")
QUICK = ["c11_dataset_graph_view", "c11_dataset_graph_triples", "c11_union_graph_view", "c11_partial_union_view", "c11_partial_union_not_view",
         "c11_gad_any", "c11_gad_const", "c11_gad_two", "c11_gad_not", "c11_gad_kind", "c11_mutate_dataset_graph", "c11_mutate_graph_as_dataset", "c11_gad_bulk", "c11_contains"]
THOROUGH = QUICK + ["c11_gad_opt"]


def spec(tier):
    cap = 400 if tier == "quick" else 2700
    names = QUICK if tier == "quick" else THOROUGH
    hs = [Harness(n, unwind=6, unwindset=[(r"Iterator>::any::<", 4, "loops?")], timeout=cap, mem_gb=14,
                  optional_covers=("at least two quads selected",) if n == "c11_gad_kind" else (),
                  note="array-backed store of <=3 symbolic quads/triples; symbolic graph selector and pattern constant") for n in names]
    return kprop.KSpec(
        package="sophia_api", crate_dir="api",
        harness_files={"api": [os.path.join(H, "vt.rs"), os.path.join(H, "c11_views.rs")]},
        harnesses=hs, jobs=6,
        encoded=["sophia_api::graph::adapter::{UnionGraph, PartialUnionGraph, DatasetGraph (+MutableGraph)}",
                 "sophia_api::dataset::adapter::GraphAsDataset (+MutableDataset)",
                 "Dataset::{graph, graph_mut, union_graph, partial_union_graph}, Graph::{as_dataset, as_dataset_mut}",
                 "default Dataset::quads_matching / Graph::triples_matching (filter over quads()/triples() with matched_by)",
                 "insert_all / remove_all of a quad stream through GraphAsDataset (default methods or overrides)"],
        bounds=["store: 3 slots, each empty or a symbolic quad over 3 terms x {default, IRI-named, blank-named} graphs; selector may be a name absent from the store",
                "one symbolic pattern constant; views stepped to exhaustion; one symbolic insert/remove through a mutable view", "loop unwind 6"],
        outside=["iteration order; views over the real in-memory stores (C01 covers their quads_matching)", "whether a union graph should de-duplicate (checked as one triple per quad)",
                 "remove_matching/retain_matching through views (Vec collection does not finish in CBMC; harness c11_bulk_through_dataset_graph kept out of the tiers)"],
        assumptions=["ArrDs/ArrG: user-level Dataset/Graph implementations providing only the required methods", "VT harness term type"],
    )


def run(ctx):
    kprop.run(ctx, spec(ctx.tier))


def replay(ctx, path):
    return kprop.replay(ctx, spec(ctx.tier), path)
