"""C05 (partial) — the permutation enumerator behind the n-degree hash."""
import os
from engine import kprop
from engine.kani_run import Harness
from engine.common import VERIF

H = os.path.join(VERIF, "harness")


def spec(tier):
    cap = 180 if tier == "quick" else 2700
    hs = [Harness("c05_perm_empty", timeout=cap), Harness("c05_perm_1", timeout=cap, optional_covers=()),
          Harness("c05_perm_2", timeout=cap), Harness("c05_perm_3", timeout=cap),
          Harness("c05_rank_4", timeout=cap, note="rank-based oracle: every arrangement maps to a distinct lexicographic rank, n! calls"),
          Harness("c05_rank_5", timeout=max(cap, 900), mem_gb=16, note="rank-based oracle, n = 5 (120 arrangements)")]
    if tier == "thorough":
        hs.append(Harness("c05_perm_4", timeout=cap, note="pairwise-distinctness oracle, n = 4"))
    return kprop.KSpec(
        package="sophia_c14n", crate_dir="c14n",
        harness_files={"c14n": [os.path.join(H, "c14n", "c05_perm.rs")]},
        harnesses=hs, jobs=4,
        encoded=["sophia_c14n::_permutations::for_each_permutation_of", "sophia_c14n::_permutations::permutations (Heap's algorithm, recursive)"],
        bounds=["n in {0,1,2,3,4,5} pairwise distinct symbolic u8 values (n = 4, 5 with the rank oracle; n = 4 also with the pairwise oracle in the thorough tier)",
                "callback failure position symbolic in 0..=n!", "unwind n!+2 (unwinding assertions on)"],
        outside=["everything else in C05's statement: the iff, both hash functions, the issuer, relabel_with, canonical N-Quads escaping "
                 "(SHA-2, BTreeMap<Rc<str>>, format! on symbolic data do not finish in CBMC: DESIGN.md probes 19, 20, 24)", "n > 5"],
        assumptions=["the callback stands for hash_n_degree_quads' closure"],
    )


def run(ctx):
    kprop.run(ctx, spec(ctx.tier))


def replay(ctx, path):
    return kprop.replay(ctx, spec(ctx.tier), path)
