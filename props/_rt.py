"""Shared helpers for the R-decided properties whose witnesses are replayed through the real
serialisers/parsers (replay crate subcommand `rt`)."""
from engine import rprop


def rt_eval(rep, reqs):
    """reqs: [(mode, kind, string)] -> list of answers"""
    inp = "\n".join("%s\t%s\t%s" % (m, k, rprop.esc(s)) for m, k, s in reqs) + "\n"
    rc, out = rep.run("dev", ["rt"], stdin=inp, timeout=600)
    rows = out.rstrip("\n").split("\n")
    if rc != 0 or len(rows) != len(reqs):
        raise RuntimeError("rt replay failed rc=%s (%d/%d answers): %s" % (rc, len(rows), len(reqs), out[-300:]))
    return rows


def confirmer(rep, pairs):
    """pairs: [(mode, kind)]; the witness is a violation if ANY of the replays says VIOLATION;
    it is outside the quantifier (None) if every replay says n/a; otherwise it does not reproduce (False)."""
    def confirm(w):
        ans = rt_eval(rep, [(m, k, w) for m, k in pairs])
        viol = [a for a in ans if a.startswith("VIOLATION")]
        if viol:
            return True, viol[0][:600]
        if all(a.startswith("n/a") for a in ans):
            return None, ans[0][:300]
        return False, "; ".join(ans)[:300]
    return confirm
