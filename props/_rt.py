"""Shared helpers for the R-decided properties whose witnesses are replayed through the real
serialisers/parsers (replay crate subcommand `rt`)."""
from engine import rprop


def rt_eval(rep, reqs):
    """reqs: [(mode, kind, string)] -> list of answers"""
    inp = "\n".join("%s\t%s\t%s" % (m, k, rprop.esc(s)) for m, k, s in reqs) + "\n"
    rc, out = rep.run("dev", ["rt"], stdin=inp, timeout=600)
    rows = out.rstrip("\n").split("\n")
    if rc != 0 or len(rows) != len(reqs):
        raise RuntimeError("rt replay failed rc=%s (%d/%d answers): %s" % (rc, len(rows), len(reqs), out[-300:]))
    return rows


def confirmer(rep, pairs):
    """pairs: [(mode, kind)]; the witness is a violation if ANY of the replays says VIOLATION;
    it is outside the quantifier (None) if every replay says n/a; otherwise it does not reproduce (False)."""
    def confirm(w):
        ans = rt_eval(rep, [(m, k, w) for m, k in pairs])
        viol = [a for a in ans if a.startswith("VIOLATION")]
        if viol:
            return True, viol[0][:600]
        if all(a.startswith("n/a") for a in ans):
            return None, ans[0][:300]
        return False, "; ".join(ans)[:300]
    return confirm


def merge_k_r(ctx, kcov, rcov, native_traces=0):
    """A property decided partly by engine K (bounded) and partly by engine R (unbounded) reports the weaker level."""
    ctx.level = "model_checking"
    cov = dict(kcov)
    cov["regular_language_obligations"] = {k: rcov.get(k) for k in ("obligations", "discharged", "checker_cmd", "queries", "solver_time_s", "unbounded")}
    cov["samples"] = kcov.get("samples", []) + rcov.get("samples", [])
    cov["traces_validated_against_impl"] = kcov.get("traces_validated_against_impl", 0) + native_traces
    cov["trusted_base"] = rcov.get("trusted_base")
    for k in ("translator_validation", "functions_encoded", "outside_the_claim"):
        if k in rcov and k not in ("functions_encoded", "outside_the_claim"):
            cov[k] = rcov[k]
    cov["functions_encoded"] = list(kcov.get("functions_encoded", [])) + [x for x in rcov.get("functions_encoded", []) if x not in kcov.get("functions_encoded", [])]
    cov["outside_the_claim"] = list(kcov.get("outside_the_claim", [])) + [x for x in rcov.get("outside_the_claim", []) if x not in kcov.get("outside_the_claim", [])]
    ctx.coverage.clear()
    ctx.coverage.update(cov)
