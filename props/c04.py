"""C04 (partial) — the abbreviations guarded by regular expressions in the Turtle pretty-printer never leave the
Turtle grammar (engine R, unbounded); witnesses are replayed through TurtleSerializer + the real Turtle parser."""
import os
from engine import rprop, kprop, replay as rp
from engine.kani_run import Harness
from engine.common import VERIF
from engine.rx import extract, rustre, ast as A
from engine.common import log
from refgrammar import w3c
from props import _rt

NAMES = ["INTEGER", "DECIMAL", "DOUBLE", "BOOLEAN", "PN_LOCAL", "PN_PREFIX"]
KIND = {"INTEGER": "integer", "DECIMAL": "decimal", "DOUBLE": "double", "BOOLEAN": "boolean", "PN_LOCAL": "local", "PN_PREFIX": "prefix"}
REF = {"INTEGER": w3c.INTEGER, "DECIMAL": w3c.DECIMAL, "DOUBLE": w3c.DOUBLE, "BOOLEAN": w3c.BOOLEAN, "PN_LOCAL": w3c.PN_LOCAL, "PN_PREFIX": w3c.PN_PREFIX}

WIRING = [
    ("turtle/src/serializer/_pretty.rs", r"xsd::integer == datatype && INTEGER\.is_match\(&value\)\s*\|\| xsd::decimal == datatype && DECIMAL\.is_match\(&value\)\s*\|\| xsd::double == datatype && DOUBLE\.is_match\(&value\)\s*\|\| xsd::boolean == datatype && BOOLEAN\.is_match\(&value\)"),
    ("turtle/src/serializer/_pretty.rs", r"get_checked_prefixed_pair\(iri, \|txt\| PN_LOCAL\.is_match\(txt\)\)"),
]

CORPUS = ["0", "+0", "-0", "1.5", "+1.5", ".5", "5.", "1e5", "1.e5", ".1e5", "1E-5", "0EE0", "1x5", ",0", "true", "false", "True", "1", "",
          "a", "a.b", "a.", ".a", "a:b", "a%41", "a%4", "a\\.b", "a-b", "-a", "0a", "a b", "é", "a/b", "a#b", "·a", "a·"]


def kspec(tier):
    return kprop.KSpec(
        package="sophia_api", crate_dir="api",
        harness_files={"api": [os.path.join(VERIF, "harness", "api", "c04_prefix_pair.rs")]},
        harnesses=[Harness("c04_prefix_pair_sound", unwind=7, timeout=180 if tier == "quick" else 1800,
                           note="2-entry prefix map with overlapping/unrelated namespaces, 4-byte IRI over {a,b,.,-}, symbolic suffix check")],
        jobs=2,
        encoded=["sophia_api::prefix::PrefixMap::get_checked_prefixed_pair for [(P, N)] (used by write_iri to build prefixed names)"],
        bounds=["IRI of 4 symbolic bytes over {a b . -}", "2 namespaces: symbolic prefixes of the IRI (any lengths 0..=4) or an unrelated one", "symbolic suffix predicate (non-empty / forbidden first byte)"],
        outside=["longer IRIs / more than two prefixes", "other PrefixMap implementations"],
    )


def run(ctx):
    kprop.run(ctx, kspec(ctx.tier))
    kcov = dict(ctx.coverage)
    try:
        _run_r(ctx)
    finally:
        rcov = dict(ctx.coverage)
        _rt.merge_k_r(ctx, kcov, rcov, rcov.get("traces_validated_against_impl", 0) if rcov.get("obligations") else 0)


def _run_r(ctx):
    try:
        src = {n: extract.extract(n) for n in NAMES}
        asts = {n: rustre.parse(s) for n, s in src.items()}
    except (extract.ExtractError, rustre.Unsupported, ValueError) as e:
        ctx.inconc("cannot extract/parse the shorthand patterns from the current source: %s" % e)
        ctx.level = "proof"
        ctx.coverage.update({"obligations": 1, "discharged": 0, "checker_cmd": "z3-new -in", "trusted_base": [], "samples": [{"error": str(e)}]})
        return
    bad = extract.wiring(WIRING)
    if bad:
        ctx.inconc("the pretty-printer no longer consults the extracted patterns the way the encoding assumes: %s" % bad)
    rep = rp.Replay(ctx.id, profiles=("dev",))
    try:
        patfiles = {}
        for n, s in src.items():
            patfiles[n] = os.path.join(rep.dir, n + ".pat")
            with open(patfiles[n], "w", encoding="utf-8") as f:
                f.write(s)
        obls = []
        for n in NAMES:
            obls.append(rprop.Obl("%s_subset_turtle" % n, "subset", asts[n], REF[n], "L(%s) in _pretty.rs" % n, "Turtle 1.1 %s" % n,
                                  _rt.confirmer(rep, [("ttl", KIND[n])]),
                                  "whatever the serializer writes bare / as a prefixed name is a Turtle %s token" % n))
        known_classes = {}
        for e in ctx.open_findings():
            c, detail = _rt.confirmer(rep, [("ttl", e["kind"])])(e["witness"])
            if c:
                ctx.known("%s [%s]" % (e["what"], e["key"]))
                known_classes.setdefault(e["obligation"], []).append((e["key"], rustre.parse(e["class_regex"]), e["what"]))
                ctx.assumptions.append("known finding %s assumed away in %s" % (e["key"], e["obligation"]))
        results = rprop.run(ctx, obls, known_classes, max_witnesses=(4 if ctx.tier == "quick" else 12),
                            trusted=["Rio's Turtle parser only in the replay"])
        extra = [w["string"] for r in results for w in r["witnesses"]]
        n, nbad = rprop.validate_translator(ctx, rep, list(asts.items()), sorted(set(CORPUS + extra)), patfiles)
        ctx.coverage["translator_validation"] = {"strings": n, "disagreements": nbad}
        # native corpus replay: round trip of each corpus string under each kind (catches wiring changes the regex view misses)
        reqs = [("ttl", KIND[nm], s) for nm in NAMES for s in CORPUS]
        ans = _rt.rt_eval(rep, reqs)
        ctx.coverage["traces_validated_against_impl"] = len(reqs) + len(extra)
        solver_failing = {r["obligation"] for r in results if r["verdict"] == "sat"}
        nrep = 0
        for r in results:
            if r["verdict"] == "unsat":
                continue
            if r["verdict"] != "sat":
                ctx.inconc("%s: %s" % (r["obligation"], r["verdict"]))
                continue
            conf = [w for w in r["witnesses"] if (w.get("replay") or {}).get("reproduced")]
            if conf:
                w = conf[0]
                nrep += 1
                wp = ctx.write_witness(r["obligation"], {"property": "C04", "obligation": r["obligation"], "string": w["string"], "escaped": w["escaped"],
                                                         "kind": KIND[r["obligation"].split("_subset")[0]], "detail": w["replay"]["detail"]})
                ctx.violation(wp, "%s: %r — %s" % (r["obligation"], w["string"], w["replay"]["detail"][:300]))
            elif all((w.get("replay") or {}).get("reproduced") is None for w in r["witnesses"]):
                # every witness is outside the quantifier (e.g. suffix that is not a valid IRI): record, do not alarm
                r["note"] = "all %d witnesses are outside the property's quantifier (replay n/a)" % len(r["witnesses"])
                ctx.inconc("%s: regex exceeds the grammar only on strings outside the quantifier in %d witnesses; cannot discharge" % (r["obligation"], len(r["witnesses"])))
            else:
                ctx.inconc("%s: solver witness %r does not reproduce through the real serializer/parser (SPURIOUS)" % (r["obligation"], r["witnesses"][0]["string"]))
        for (m, k, s), a in zip(reqs, ans):
            if a.startswith("VIOLATION"):
                nm = [x for x in NAMES if KIND[x] == k][0]
                if ("%s_subset_turtle" % nm) in solver_failing:
                    continue
                if any(A.matches(c, s) for cl in known_classes.values() for (_, c, _) in cl):
                    continue
                wp = ctx.write_witness("corpus-%s" % k, {"property": "C04", "kind": k, "string": s, "escaped": rprop.esc(s), "detail": a})
                ctx.violation(wp, "corpus string %r as %s: %s" % (s, k, a[:300]))
        ctx.coverage["functions_encoded"] = ["regexes %s of turtle/src/serializer/_pretty.rs and PN_PREFIX of api/src/prefix/_regex.rs, as used by write_literal / write_iri" % ", ".join(NAMES[:5])]
        ctx.coverage["outside_the_claim"] = ["build_labelled/build_lists/build_subject_types and everything else in the pretty-printer; Rio's parser (replay only)"]
        ctx.assumptions.append("patterns extracted from the current source at run time")
    finally:
        rep.close()


def replay(ctx, path):
    import json
    w = json.load(open(path))
    if "playback_test" in w:
        return kprop.replay(ctx, kspec(ctx.tier), path)
    rep = rp.Replay(ctx.id, profiles=("dev",))
    try:
        a = _rt.rt_eval(rep, [("ttl", w["kind"], w["string"])])[0]
        log(a)
        if a.startswith("VIOLATION"):
            log("VIOLATION property=C04 replay=%s" % path)
            return 1
        return 0
    finally:
        rep.close()
