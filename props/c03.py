"""C03 — N-Triples/N-Quads round trip, split as in DESIGN.md:
 (a) K: quoted_string is the inverse of the grammar's STRING_LITERAL_QUOTE decoder for every UTF-8 string <= 3 (thorough 4) bytes;
 (b) R: everything copied verbatim is grammatical, unbounded (BNODE_ID, IRI regex, BCP47 tags constructible);
 (c) parser half: only in the native replay of witnesses/corpus through the real nt/nq parsers."""
import os
from engine import kprop, rprop, replay as rp
from engine.kani_run import Harness
from engine.rx import extract, rustre, ast as A
from engine.common import VERIF, log
from refgrammar import w3c, bcp47
from props import _rt

H = os.path.join(VERIF, "harness")

CORPUS = [("lex", s) for s in ["", "a", "\"", "\\", "\n", "\r", "\t", "\x00", "\x7f", "a\"b\\c\nd\re", "é", "😀", "é", " ", "\\n", "\\u0041", "'"]] + \
         [("lex", s) for s in ["\u00e9\n", "\u00e9\\", "\U0001F600\"x", "\n\u00e9", "\u041f\u0440\u0438\u0432\u0435\u0442, \"\u043c\u0438\u0440\"!"]] + \
         [("lexdt", s) for s in ["1", "\"\n\\"]] + \
         [(k, s) for k in ("lexint", "lexbool", "lexdouble", "lexdecimal") for s in ["1", "1\n2", "\"", "\\t", "\r"]] + \
         [("bnode", s) for s in ["a", "a.b", "0a", "a-b", "a·b", "é", "_", "a_b", "a.b.c"]] + \
         [("gbnode", "g1"), ("gname", "http://example.org/g"), ("gname", "http://é.org/ü?q#f")] + \
         [("iri", s) for s in ["http://example.org/", "http://é.org/ü?q#f", "urn:x:y", "http://[::1]/", "a:b%20c", "http://x/\U0001F600"]] + \
         [("lang", s) for s in ["en", "EN", "en-US", "de-Latn-DE-1996", "x-private", "zh-min-nan", "i-klingon"]]


def esc_harness(n, to):
    return Harness("c03_escape_%d" % n, unwind=2 * n + 3,
                   unwindset=[(r"^serializer::nt::quoted_string::<", n + 2, "both"), (r"c03_common::valid_utf8$", n + 2, "loops"),
                              (r"c03_common::ArrW as std::io::Write>::write$", n + 2, "loops")],
                   timeout=to, note="every valid UTF-8 string of <= %d bytes through quoted_string; oracle = STRING_LITERAL_QUOTE decoder" % n)


def wt_harness(n, to):
    return Harness("c03_write_term_%d" % n, unwind=2 * n + 12,
                   unwindset=[(r"^serializer::nt::quoted_string::<", n + 2, "both"), (r"c03_common::valid_utf8$", n + 2, "loops"),
                              (r"c03_common::ArrW as std::io::Write>::write$", 10, "loops")],
                   optional_covers=("multi-byte character followed by an escaped one",) if n < 3 else (),
                   timeout=to, note="every valid UTF-8 lexical form of <= %d bytes through the public write_term (lean literal term); oracle = STRING_LITERAL_QUOTE decoder + framing" % n)


def dt_harness():
    return Harness("c03_write_term_datatypes", unwind=8,
                   unwindset=[(r"^serializer::nt::quoted_string::<", 4, "both"), (r"c03_common::ArrW as std::io::Write>::write$", 48, "loops")],
                   extra_cbmc=["--unwindset", "memcmp.0:60"], timeout=600,
                   note="write_term on a literal with one symbolic ASCII byte (or empty) and a symbolic datatype among xsd:string / integer / decimal / double / boolean / non-XSD: escaping and framing do not depend on the datatype")


def direct_signature_present():
    import re
    from engine.overlay import REPO
    with open(os.path.join(REPO, "turtle/src/serializer/nt.rs")) as f:
        return re.search(r"pub\(crate\) fn quoted_string<W: io::Write>\(w: &mut W, txt: &\[u8\]\) -> io::Result<\(\)>", f.read()) is not None


def kspec(tier):
    cap = 180 if tier == "quick" else 2700
    files = [os.path.join(H, "turtle", "c03_common.rs")]
    hs = []
    if direct_signature_present():
        files.append(os.path.join(H, "turtle", "c03_escape.rs"))
        hs += [esc_harness(2, cap), esc_harness(3, cap)]
        if tier == "thorough":
            hs += [esc_harness(4, cap), wt_harness(2, cap), wt_harness(3, cap)]
        files.append(os.path.join(H, "turtle", "c03_write_term.rs"))
        hs.append(dt_harness())
    else:
        # quoted_string no longer has the signature the direct harness drives: go through the public write_term only
        files.append(os.path.join(H, "turtle", "c03_write_term.rs"))
        hs += [wt_harness(2, 900), wt_harness(3, 1800), dt_harness()]
    return kprop.KSpec(
        package="sophia_turtle", crate_dir="turtle",
        harness_files={"turtle": files},
        harnesses=hs, jobs=3,
        encoded=["sophia_turtle::serializer::nt::quoted_string", "sophia_turtle::serializer::nt::write_term (literal arm; thorough tier or when quoted_string changes signature)"],
        bounds=["all valid UTF-8 byte strings of length <= %d" % (3 if tier == "quick" else 4), "output decoded by a transcription of the W3C STRING_LITERAL_QUOTE body (ECHAR, UCHAR)",
                "unwinding assertions on"],
        outside=["that Rio's lexer inverts the escaping (exercised on witnesses and a corpus in the native replay only)", "strings longer than the bound",
                 "write_term framing beyond what the native corpus replay exercises"],
        assumptions=["array-backed io::Write that never fails"],
    )


def run(ctx):
    # (a)
    kprop.run(ctx, kspec(ctx.tier))
    kcov = dict(ctx.coverage)
    # (b)
    try:
        asts = {n: rustre.parse(extract.extract(n)) for n in ("BNODE_ID", "IRI_REGEX_SRC", "LANG_TAG")}
    except (extract.ExtractError, rustre.Unsupported, ValueError) as e:
        ctx.inconc("cannot extract/parse validator patterns: %s" % e)
        return
    rep = rp.Replay(ctx.id, profiles=("dev",))
    try:
        obls = [
            rprop.Obl("bnode_label_grammatical", "subset", asts["BNODE_ID"], w3c.NT_BNODE_LABEL, "L(BNODE_ID)", "N-Triples BLANK_NODE_LABEL",
                      _rt.confirmer(rep, [("nt", "bnode"), ("nt", "gbnode")]), "every valid blank node label can be written verbatim after '_:'"),
            rprop.Obl("iri_grammatical", "subset", asts["IRI_REGEX_SRC"], w3c.IRIREF_BODY, "L(IRI_REGEX_SRC)", "N-Triples IRIREF body",
                      _rt.confirmer(rep, [("nt", "iri"), ("nt", "gname")]), "every valid absolute IRI can be written verbatim between '<' and '>'"),
            rprop.Obl("bcp47_constructible", "subset", bcp47.Language_Tag, asts["LANG_TAG"], "RFC 5646 Language-Tag", "L(LANG_TAG)",
                      None, "every BCP47 tag is accepted by LanguageTag::new (and is a LANGTAG of the grammar)"),
            rprop.Obl("bcp47_grammatical", "subset", bcp47.Language_Tag, w3c.LANGTAG, "RFC 5646 Language-Tag", "N-Triples LANGTAG (after '@')",
                      None, "reference-only sanity obligation: BCP47 tags are LANGTAGs"),
        ]
        results = rprop.run(ctx, obls, {}, max_witnesses=(3 if ctx.tier == "quick" else 8), trusted=["Rio N-Triples/N-Quads parser in the replay only"])
        rcov = dict(ctx.coverage)
        # (c) native corpus
        reqs = [("nt", k, s) for k, s in CORPUS]
        ans = _rt.rt_eval(rep, reqs)
        nviol = 0
        for r in results:
            if r["verdict"] == "unsat":
                continue
            if r["verdict"] != "sat":
                ctx.inconc("%s: %s" % (r["obligation"], r["verdict"]))
                continue
            conf = [w for w in r["witnesses"] if (w.get("replay") or {}).get("reproduced")]
            if r["obligation"].startswith("bcp47"):
                w = r["witnesses"][0]
                wp = ctx.write_witness(r["obligation"], {"property": "C03", "mode": "nt", "kind": "lang", "string": w["string"], "obligation": r["obligation"]})
                ctx.violation(wp, "%s: BCP47 tag %r is not in %s" % (r["obligation"], w["string"], r["B"]))
            elif conf:
                w = conf[0]
                wp = ctx.write_witness(r["obligation"], {"property": "C03", "mode": "nt", "kind": "bnode" if "bnode" in r["obligation"] else "iri",
                                                         "string": w["string"], "detail": w["replay"]["detail"]})
                ctx.violation(wp, "%s: %r — %s" % (r["obligation"], w["string"], w["replay"]["detail"][:300]))
            else:
                ctx.inconc("%s: witness %r does not reproduce through the real serializer/parser" % (r["obligation"], r["witnesses"][0]["string"]))
        for (m, k, s), a in zip(reqs, ans):
            if a.startswith("VIOLATION"):
                wp = ctx.write_witness("corpus-%s-%d" % (k, nviol), {"property": "C03", "mode": "nt", "kind": k, "string": s, "escaped": rprop.esc(s), "detail": a})
                nviol += 1
                ctx.violation(wp, "corpus %s %r: %s" % (k, s, a[:300]))
            elif a.startswith("n/a") and k != "lang":
                ctx.inconc("corpus item %s %r unexpectedly n/a: %s" % (k, s, a))
        # merge K and R coverage; the weaker level (bounded) is reported
        ctx.level = "model_checking"
        cov = dict(kcov)
        cov["regular_language_obligations"] = {k: rcov.get(k) for k in ("obligations", "discharged", "checker_cmd", "queries", "solver_time_s", "unbounded")}
        cov["samples"] = kcov.get("samples", []) + rcov.get("samples", [])
        cov["traces_validated_against_impl"] = kcov.get("traces_validated_against_impl", 0) + len(reqs) + sum(len(r["witnesses"]) for r in results)
        cov["trusted_base"] = rcov.get("trusted_base")
        cov["native_corpus_roundtrips"] = len(reqs)
        ctx.coverage.clear()
        ctx.coverage.update(cov)
        ctx.assumptions.append("LANG_TAG accepts non-BCP47 tags such as 'A0' that Rio rejects; the property quantifies over BCP47 tags only, so this is recorded, not reported")
    finally:
        rep.close()


def replay(ctx, path):
    import json
    w = json.load(open(path))
    if "playback_test" in w:
        return kprop.replay(ctx, kspec(ctx.tier), path)
    rep = rp.Replay(ctx.id, profiles=("dev",))
    try:
        a = _rt.rt_eval(rep, [(w.get("mode", "nt"), w["kind"], w["string"])])[0]
        log(a)
        if a.startswith("VIOLATION"):
            log("VIOLATION property=C03 replay=%s" % path)
            return 1
        return 0
    finally:
        rep.close()
